"""C04 — time arrays stay element-aligned, immutable and hash-consistent when derived.

translate:   translator/extract_timearray.py (does __getitem__ clear the side channel?) → Generated/TimeArrayMech.lean
prove:       lean/Midgard/Props/C04.lean (heap invariant by induction over all operation sequences)
correspond:  operation sequences (bounded-exhaustive short ones + long random ones) on real arrays vs the
             model's heap machine; epochs are mapped to origin tags so alignment is equality of tag lists
oracle:      alignment, length, index semantics on plain Python lists, immutability, hash/eq,
             re-execution independence — on the real code only
"""
from __future__ import annotations

import copy
import itertools
import json

import numpy as np

from . import common
from .common import Ctx


def _imp():
    from midgard.data.time import Time

    return Time


class World:
    """real arrays + lookup tables from float values to origin tags"""

    def __init__(self, Time, kind: str, sizes):
        self.Time = Time
        self.kind = kind  # "mjd" (1 column, utc) or "gps_ws" (3 columns, gps)
        self.arrs = []
        self.tab1, self.tab2, self.tabv = {}, {}, {}
        self.fresh = []
        self.shadowed = 0
        for bi, n in enumerate(sizes):
            base = 100 * bi
            if kind == "mjd":
                mjd = np.array([51544.0 + 3 * (base + k) + (k + 1 + 7 * bi) / 64.0 for k in range(n)])
                t = Time(mjd, fmt="mjd", scale="utc")
            else:
                week = np.array([1000.0 + base + k for k in range(n)])
                sec = np.array([3600.0 * (k + 1) + 450.0 * (bi + 1) + 86400.0 * (k % 3) for k in range(n)])
                t = Time(week, val2=sec, fmt="gps_ws", scale="gps")
            self.fresh.append((base, n))
            self.arrs.append(t)
            self.base_scale = t.scale
            # conversions are elementwise and deterministic: register the converted epochs under the same tags
            for conv in (t, t.tai, getattr(t.tai, t.scale)):
                self._register(conv, base)

    def _rows(self, x):
        v = np.asarray(x)
        if self.kind == "gps_ws" and getattr(x, "fmt", None) == "gps_ws":
            v = v.reshape(-1, 3)
            return [("ws", float(r[0])) for r in v]
        return [("v", float(r)) for r in np.atleast_1d(v).reshape(-1)]

    def _register(self, t, base):
        j1 = np.atleast_1d(np.asarray(t.jd1, dtype=float))
        j2 = np.atleast_1d(np.asarray(t.jd2, dtype=float))
        for k, r in enumerate(self._rows(t)):
            self.tabv[(t.scale,) + r] = base + k
        for k in range(len(j1)):
            self.tab1[float(j1[k])] = base + k
            self.tab2[(t.scale, float(j2[k]))] = base + k

    def obs(self, x):
        """(scalar, vals tags, jd1 tags, jd2 tags) of a real array; unknown values map to -1"""
        scalar = np.ndim(x.jd1) == 0 if x.jd1 is not None else True
        j1 = np.atleast_1d(np.asarray(x.jd1, dtype=float)) if x.jd1 is not None else []
        j2 = np.atleast_1d(np.asarray(x.jd2, dtype=float)) if x.jd2 is not None else []
        vals = [self.tabv.get((x.scale,) + r, -1) for r in self._rows(x)]
        return (bool(scalar), vals, [self.tab1.get(float(a), -1) for a in j1], [self.tab2.get((x.scale, float(b)), -1) for b in j2])


def show_obs(o):
    f = lambda l: ",".join(str(v) for v in l) if l else "[]"
    return f"{int(o[0])}:{f(o[1])}:{f(o[2])}:{f(o[3])}"


def sel_token(sel):
    k = sel[0]
    if k == "s":
        f = lambda v: "_" if v is None else str(v)
        return f"s:{f(sel[1])}:{f(sel[2])}:{sel[3]}"
    if k == "m":
        return "m:" + "".join("1" if b else "0" for b in sel[1]) if sel[1] else "m"
    return "i:" + (",".join(str(v) for v in sel[1]) if sel[1] else "[]")


def op_token(op):
    k = op[0]
    if k == "getint":
        return f"getint:{op[1]}:{op[2]}"
    if k in ("getsel", "subset"):
        return f"{k}:{op[1]}:{sel_token(op[2])}"
    if k == "insert":
        return f"insert:{op[1]}:{op[2]}:{op[3]}"
    return f"{k}:{op[1]}"


def np_index(sel):
    if sel[0] == "s":
        return slice(sel[1], sel[2], sel[3])
    if sel[0] == "m":
        return np.array(sel[1], dtype=bool)
    return list(sel[1])


def py_positions(sel, n):
    """index semantics on a plain list of length n (the oracle's own statement of 'the same indices')"""
    if sel[0] == "s":
        if sel[3] == 0:
            return None
        return list(range(n))[slice(sel[1], sel[2], sel[3])]
    if sel[0] == "m":
        if len(sel[1]) != n:
            return None
        return [k for k in range(n) if sel[1][k]]
    out = []
    for i in sel[1]:
        if -n <= i < n:
            out.append(i % n)
        else:
            return None
    return out


def apply_op(w: World, op, variant_rng):
    """execute on the real arrays; returns ('A', obs, obj) | ('M', [obs]) | ('E',)"""
    k = op[0]
    arrs = w.arrs
    t = arrs[op[1]] if op[1] < len(arrs) else None
    if t is None:
        return ("E",)
    try:
        if k == "getint":
            i = op[2]
            r = t[np.int64(i)] if variant_rng.random() < 0.3 else t[i]
        elif k == "getsel":
            r = t[np_index(op[2])]
        elif k == "view":
            v = variant_rng.randrange(4)
            if w.kind == "mjd" and np.ndim(t) == 1:
                r = [t.view(), t.T, t.reshape(len(t)), np.add(t, 0)][v] if t.size > 0 else t.view()
            else:
                r = t.view()
        elif k == "copy":
            v = variant_rng.randrange(3)
            r = [t.copy(), copy.copy(t), copy.deepcopy(t)][v]
        elif k == "subset":
            idx = np_index(op[2])
            if isinstance(idx, slice):
                return ("E",)
            r = t.subset(idx, {})
        elif k == "insert":
            b = arrs[op[3]]
            r = type(t).insert(t, op[2], b, {})
        elif k == "scale":
            # to TAI, and from TAI back to the scale of the source arrays (for gps_ws that comes back in format jd:
            # equal epochs in another format)
            target = "tai" if t.scale != "tai" else w.base_scale
            if variant_rng.random() < 0.5:
                # an unrelated array holding the same numbers in another scale is converted first: what it computed
                # must not be handed out for `t` (the conversion caches are keyed through __hash__/__eq__)
                try:
                    sh_scale = "tt" if t.scale != "tt" else "tcg"
                    v = np.asarray(t)
                    if t.fmt == "gps_ws":
                        v = v.reshape(-1, 3)
                        sh = w.Time(v[:, 0].copy(), val2=v[:, 1].copy(), fmt="gps_ws", scale=sh_scale) if np.ndim(t.jd1) else \
                            w.Time(float(v[0, 0]), val2=float(v[0, 1]), fmt="gps_ws", scale=sh_scale)
                    elif t.fmt == "jd":
                        sh = w.Time(np.array(t.jd1), val2=np.array(t.jd2), fmt="jd", scale=sh_scale) if np.ndim(t.jd1) else \
                            w.Time(float(t.jd1), val2=float(t.jd2), fmt="jd", scale=sh_scale)
                    else:
                        sh = w.Time(v.copy() if np.ndim(v) else float(v), fmt=t.fmt, scale=sh_scale)
                    if np.array_equal(np.asarray(sh.jd1), np.asarray(t.jd1)) and np.array_equal(np.asarray(sh.jd2), np.asarray(t.jd2)):
                        w.shadowed += 1
                    getattr(sh, target)
                    sh.tai, sh.utc, sh.gps
                except (ValueError, TypeError, IndexError):
                    pass
            r = getattr(t, target)
        elif k == "iter":
            items = [x for x in t]
            out = [w.obs(x) for x in items]
            arrs.extend(items)
            return ("M", out, items)
        elif k == "set":
            return ("E",)
        else:
            return ("E",)
    except (IndexError, ValueError, TypeError):
        return ("E",)
    arrs.append(r)
    return ("A", w.obs(r), r)


class HeapMirror:
    """keeps the model's array numbering in step with the real list: the model appends one array per
    successful op (k arrays for iter), nothing on error"""


def gen_exhaustive_alphabet(n):
    """small alphabet for the bounded-exhaustive part; target 0 = base array, 'L' = last created"""
    A = []
    for tgt in (0, "L"):
        A += [("getint", tgt, 1), ("getint", tgt, -1),
              ("getsel", tgt, ("s", 1, 3, 1)), ("getsel", tgt, ("s", None, None, -1)),
              ("getsel", tgt, ("m", "alt")), ("getsel", tgt, ("i", "rev2")),
              ("view", tgt), ("copy", tgt), ("subset", tgt, ("m", "alt")), ("scale", tgt), ("iter", tgt)]
    A.append(("insert", 0, 1, 1))
    return A


def concretise(op, w: World, last):
    """resolve symbolic targets / selections against the current real arrays"""
    tgt = op[1]
    if tgt == "L":
        tgt = last
    t = w.arrs[tgt]
    n = len(np.atleast_1d(np.asarray(t.jd1))) if np.ndim(t.jd1) > 0 else 0
    if op[0] in ("getsel", "subset"):
        sel = op[2]
        if sel[0] == "m" and sel[1] == "alt":
            sel = ("m", [k % 2 == 0 for k in range(n)])
        elif sel[0] == "i" and sel[1] == "rev2":
            sel = ("i", [n - 1, 0] if n > 0 else [])
        return (op[0], tgt, sel)
    if op[0] == "getint":
        return (op[0], tgt, op[2])
    if op[0] == "insert":
        return ("insert", tgt, op[2], op[3])
    return (op[0], tgt)


def is_scalar(t):
    return np.ndim(t.jd1) == 0


def random_sel(rng, n):
    k = rng.random()
    if k < 0.45:
        f = lambda: rng.choice([None, rng.randint(-n - 2, n + 2)])
        return ("s", f(), f(), rng.choice([1, 1, 2, -1, -2, 3]))
    if k < 0.75:
        m = [rng.random() < 0.5 for _ in range(n)]
        if rng.random() < 0.05:
            m = m + [True]  # wrong length
        return ("m", m)
    l = [rng.randint(-n, n - 1) if n > 0 else 0 for _ in range(rng.randint(0, 4))]
    if rng.random() < 0.05:
        l.append(n + 3)  # out of range
    return ("i", l)


def random_op(rng, w: World):
    nonscalar = [i for i, t in enumerate(w.arrs) if not is_scalar(t)]
    anyarr = list(range(len(w.arrs)))
    k = rng.random()
    if k < 0.14:
        t = rng.choice(nonscalar)
        n = len(w.arrs[t].jd1)
        return ("getint", t, rng.randint(-n - 1, n))
    if k < 0.40:
        t = rng.choice(nonscalar)
        return ("getsel", t, random_sel(rng, len(w.arrs[t].jd1)))
    if k < 0.55:
        return ("view", rng.choice(anyarr))
    if k < 0.65:
        return ("copy", rng.choice(anyarr))
    if k < 0.75:
        t = rng.choice(nonscalar)
        s = random_sel(rng, len(w.arrs[t].jd1))
        while s[0] == "s":
            s = random_sel(rng, len(w.arrs[t].jd1))
        return ("subset", t, s)
    if k < 0.82:
        a = rng.choice(nonscalar)
        b = rng.choice([i for i in nonscalar if len(w.arrs[i].jd1) > 0] or nonscalar)
        n = len(w.arrs[a].jd1)
        return ("insert", a, rng.randint(-n, n) if rng.random() < 0.9 else n + 2, b)
    if k < 0.90:
        return ("scale", rng.choice(anyarr))
    if k < 0.97:
        t = rng.choice(nonscalar)
        return ("iter", t)
    return ("set", rng.choice(anyarr))


def check_object(ctx: Ctx, w: World, x, where, case):
    """oracle on one derived array"""
    sc, v, a, b = w.obs(x)
    if not (v == a == b):
        ctx.violate("misaligned:" + where, f"values {v}, jd1 {a}, jd2 {b} are not the same epochs after {where}", case)
        return
    if -1 in v:
        ctx.violate("unknown-epoch:" + where, "a derived array contains an epoch that was in no source array", case)
    try:
        if len(x) != len(v):
            ctx.violate("len:" + where, f"len() = {len(x)} for {len(v)} epochs" + (" (a single epoch)" if sc else ""), case)
    except TypeError:
        if not sc:
            ctx.violate("len-raises:" + where, "len() of a non-scalar time array raises TypeError", case)
    # derived formats are computed from the jd parts: must agree with the values
    try:
        if x.fmt == "mjd" and np.size(x) > 0:
            if not np.array_equal(np.atleast_1d(np.asarray(x.mjd)), np.atleast_1d(np.asarray(x))):
                ctx.violate("derived-format:" + where, ".mjd differs from the stored values", case)
    except Exception as e:
        ctx.violate("derived-format-raises:" + where, f"{type(e).__name__}: {e}", case)
    # immutability
    for name, arr in (("values", x), ("jd1", x.jd1), ("jd2", x.jd2)):
        if isinstance(arr, np.ndarray) and arr.flags.writeable:
            ctx.violate(f"writable-{name}:" + where, f"{name} of a derived array is writable", case)


def check_immutable(ctx: Ctx, x, case):
    before = (np.asarray(x).tolist(), np.asarray(x.jd1).tolist(), np.asarray(x.jd2).tolist(), x.fmt)
    for what, f in (("setitem", lambda: x.__setitem__(0 if np.ndim(x) else (), 1.0)),
                    ("setattr fmt", lambda: setattr(x, "fmt", "jd")),
                    ("setattr jd1", lambda: setattr(x, "jd1", 0.0)),
                    ("new attr", lambda: setattr(x, "foo", 1))):
        try:
            f()
            ctx.violate("mutable:" + what, f"{what} on a time array did not raise", case)
        except (ValueError, AttributeError, TypeError, IndexError):
            pass
    after = (np.asarray(x).tolist(), np.asarray(x.jd1).tolist(), np.asarray(x.jd2).tolist(), x.fmt)
    if before != after:
        ctx.violate("mutated", "a refused assignment changed the array", case)


def run_sequence(ctx: Ctx, Time, kind, sizes, ops_symbolic, rng, exhaustive):
    w = World(Time, kind, sizes)
    outs = []
    ops = []
    results = []  # (op, kind, obs)
    last = 0
    for sop in ops_symbolic:
        if callable(sop):
            op = sop(w)
        else:
            op = concretise(sop, w, last)
            t = w.arrs[op[1]]
            if is_scalar(t) and op[0] in ("getint", "getsel", "subset", "iter", "insert"):
                op = ("view", op[1])
        ops.append(op)
        nbefore = len(w.arrs)
        state = rng.getstate()
        r = apply_op(w, op, rng)
        results.append((op, r, state))
        if r[0] == "A":
            outs.append("A:" + show_obs(r[1]))
            last = len(w.arrs) - 1
        elif r[0] == "M":
            outs.append("M:" + ";".join(show_obs(o) for o in r[1]))
            if r[1]:
                last = len(w.arrs) - 1
        else:
            outs.append("E")
            assert len(w.arrs) == nbefore
    case = {"kind": kind, "sizes": list(sizes), "ops": [op_token(o) for o in ops]}
    line = "c04 run src " + " ".join(f"F:{b}:{n}" for b, n in w.fresh) + " | " + " ".join(op_token(o) for o in ops)
    model = ctx.driver.ask1(line)
    impl = "|".join(outs)
    ctx.case(case, nontrivial=len(ops) > 1)
    ctx.count(f"len={min(len(ops), 10)}{'+' if len(ops) > 10 else ''}")
    for o in ops:
        ctx.count("op:" + o[0])
    if model != impl:
        ctx.disagree("operation sequence vs heap machine", case, model, impl)
    # ---------------- oracle ----------------
    for x in w.arrs:
        check_object(ctx, w, x, "history", case)
    # index semantics against plain list indexing; re-execution independence
    for (op, r, state) in results:
        if op[0] in ("getsel", "subset") and r[0] == "A":
            parent = w.obs(w.arrs[op[1]])
            pos = py_positions(op[2], len(parent[1]))
            if pos is None or [parent[1][p] for p in pos] != r[1][1]:
                ctx.violate(f"index-semantics:{op[0]}", f"{op_token(op)} selected {r[1][1]} from {parent[1]}", case)
        if op[0] == "getint" and r[0] == "A":
            parent = w.obs(w.arrs[op[1]])
            if [parent[1][op[2]]] != r[1][1]:
                ctx.violate("index-semantics:getint", f"{op_token(op)} gave {r[1][1]} from {parent[1]}", case)
        if op[0] != "set":
            n0 = len(w.arrs)
            saved = rng.getstate()
            rng.setstate(state)
            r2 = apply_op(w, op, rng)
            rng.setstate(saved)
            if (r[0], r[1] if len(r) > 1 else None) != (r2[0], r2[1] if len(r2) > 1 else None):
                ctx.violate(f"history-dependence:{op[0]}", f"{op_token(op)} gave a different result when repeated after later operations", case)
            del w.arrs[n0:]
    # hash / eq between arrays with equal epochs
    groups = {}
    for x in w.arrs:
        o = w.obs(x)
        groups.setdefault((x.scale, o[0], tuple(o[2]), tuple(o[3])), []).append(x)
    for key, xs in groups.items():
        for a, b in zip(xs, xs[1:]):
            try:
                eq = bool(a == b)
            except Exception:
                continue
            if eq and hash(a) != hash(b):
                ctx.violate("hash-eq", "two equal time arrays have different hashes", case)
            if not eq and len(key[2]) > 0:
                ctx.violate("eq-same-epochs", "two arrays with identical jd parts compare unequal", case)
    ctx.count("cross-scale-shadow-same-jd", w.shadowed) if w.shadowed else None
    if exhaustive is False and rng.random() < 0.3:
        for x in rng.sample(w.arrs, min(3, len(w.arrs))):
            check_immutable(ctx, x, case)
    return w


def run(ctx: Ctx):
    from translator import extract_timearray

    changed = extract_timearray.generate()
    ctx.count("generated-mech-changed" if changed else "generated-mech-unchanged")
    ctx.proof = common.prove("C04")
    Time = _imp()
    rng = ctx.rng
    ctx.rule = ("operation sequences over {t[i], t[a:b:c], t[mask], t[int list], view/T/reshape/ufunc, copy/copy.copy/deepcopy, "
                "subset, insert, .tai, iterate, refused assignment}: all sequences up to length L over a 23-letter alphabet "
                "(targets: base array / last result) for 1-column (mjd) and 3-column (gps_ws) arrays, plus random sequences up to "
                "length 40 over arrays of length 0..6; non-trivial = more than one operation; distinct by the operation list")
    ctx.trusted += ["translator/extract_timearray.py (AST facts about __getitem__/__array_finalize__)",
                    "NumPy's subclass hook order (which operations call __array_finalize__ with which parent) is modelled, validated by the correspondence"]
    ctx.assumptions += ["epochs of the source arrays are pairwise distinct so that values, jd1 and jd2 can each be mapped to origin tags"]
    L = 3 if ctx.thorough else 2
    alphabet = gen_exhaustive_alphabet(4)
    n_ex = 0
    for kind in ("mjd", "gps_ws"):
        for length in range(1, L + 1):
            for seq in itertools.product(alphabet, repeat=length):
                run_sequence(ctx, Time, kind, (4, 2), list(seq), rng, True)
                n_ex += 1
    ctx.extra["exhaustive_sequences"] = n_ex
    ctx.extra["exhaustive_max_length"] = L
    # a sample of length-(L+1) sequences
    for _ in range(ctx.budget(300, 6000)):
        kind = rng.choice(["mjd", "gps_ws"])
        seq = [rng.choice(alphabet) for _ in range(L + 1)]
        run_sequence(ctx, Time, kind, (4, 2), seq, rng, True)
    # long random sequences
    for _ in range(ctx.budget(150, 5000)):
        kind = rng.choice(["mjd", "gps_ws"])
        sizes = (rng.randint(1, 6), rng.randint(1, 4))
        length = rng.randint(3, 40)
        seq = [(lambda w, _r=rng: random_op(_r, w)) for _ in range(length)]
        run_sequence(ctx, Time, kind, sizes, seq, rng, False)
    ctx.traces = ctx.evaluations


def replay(payload):
    print(json.dumps(payload, indent=1)[:3000])
    c = payload.get("replay", {})
    if "ops" in c:
        print("operation sequence:", " ".join(c["ops"]), "on", c.get("kind"), c.get("sizes"))
    return 0
