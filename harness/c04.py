"""C04 — time arrays stay element-aligned, immutable and hash-consistent when derived.

translate:   translator/extract_timearray.py (does __getitem__ clear the side channel?) → Generated/TimeArrayMech.lean
prove:       lean/Midgard/Props/C04.lean (heap invariant by induction over all operation sequences)
correspond:  operation sequences (bounded-exhaustive short ones + long random ones) on real arrays vs the
             model's heap machine; epochs are mapped to origin tags so alignment is equality of tag lists
             (+ scale class and format of every array, the `__array_finalize__` calls every operation makes on the real
             code — recorded by wrapping the hook here in the harness — against the model's notion of parent, and `==` /
             agreement of everything `__hash__` reads for pairs of arrays against the model's `pyEq`/`hashKey`)
oracle:      alignment, length, index semantics on plain Python lists, immutability, hash/eq, hash unchanged by later
             reads, re-execution independence — on the real code only
"""
from __future__ import annotations

import copy
import itertools
import json

import numpy as np

from . import common
from .common import Ctx


def _imp():
    from midgard.data.time import Time

    return Time


CLS = {"utc": 0, "tai": 1, "gps": 2, "tt": 3, "tcg": 4, "tdb": 5, "tcb": 6, "ut1": 7}
FMT = {"jd": 0, "mjd": 1, "gps_ws": 2}


class HookLog:
    """records every `__array_finalize__(self, obj)` the real code performs while `active` (the hook is wrapped here, in
    the harness; /repo is not touched)"""

    def __init__(self):
        from midgard.data import _time

        self.TB = _time.TimeBase
        self.orig = self.TB.__dict__["__array_finalize__"]
        self.events = []
        self.active = False
        log = self

        def recorder(self_, obj):
            if log.active and obj is not None:
                plain = not isinstance(obj, log.TB)
                log.events.append((None if plain else obj, (not plain) and getattr(obj, "_jd1_sliced", None) is not None, self_))
            return log.orig(self_, obj)

        self.recorder = recorder

    def __enter__(self):
        self.TB.__array_finalize__ = self.recorder
        return self

    def __exit__(self, *a):
        self.TB.__array_finalize__ = self.orig


HOOKS = None  # set by run()


class World:
    """real arrays + lookup tables from float values to origin tags"""

    def __init__(self, Time, kind: str, sizes):
        self.Time = Time
        # "mjd" (1 column, utc), "gps_ws" (3 columns, gps) or "leap" (1 column, utc: epochs on both sides of a step of TAI-UTC,
        # not in time order: the first and the last epoch lie before the step, inner ones after it)
        self.kind = kind
        self.arrs = []
        self.tab1, self.tab2, self.tabv = {}, {}, {}
        self.fresh = []
        self.shadowed = 0
        self.cached_scale = 0
        self.hooks = []      # per operation: the finalize calls seen on the real code (tokens)
        self.hash0 = {}      # id(array) -> hash taken when the array came into being
        for bi, n in enumerate(sizes):
            base = 100 * bi
            if kind == "mjd":
                mjd = np.array([51544.0 + 3 * (base + k) + (k + 1 + 7 * bi) / 64.0 for k in range(n)])
                t = Time(mjd, fmt="mjd", scale="utc")
            elif kind == "leap":
                step = ([57204.0, 38761.0, 41317.0][n % 3], [57754.0, 39126.0][n % 2])[bi % 2] + 5000.0 * (bi // 2)
                off = [-2.0] if n == 1 else [-2.0, 1.0] if n == 2 else [-2.0] + [3.0, -3.0, 2.0, 4.0, -4.0][:n - 2] + [-1.0]
                frac = [1.0 - 2.0 ** -(14 + bi) if o == -1.0 else (k + 1 + 7 * bi) / 64.0 for k, o in enumerate(off)]
                t = Time(np.array([step + o + f for o, f in zip(off, frac)]), fmt="mjd", scale="utc")
            else:
                week = np.array([1000.0 + base + k for k in range(n)])
                sec = np.array([3600.0 * (k + 1) + 450.0 * (bi + 1) + 86400.0 * (k % 3) for k in range(n)])
                t = Time(week, val2=sec, fmt="gps_ws", scale="gps")
            self.fresh.append((base, n, CLS[t.scale], FMT[t.fmt]))
            self.arrs.append(t)
            self.base_scale = t.scale
            # conversions are elementwise and deterministic: register the converted epochs under the same tags
            if kind == "leap":
                # one epoch at a time: what an epoch converts to must not depend on the epochs it is converted with
                self._register(t, base)
                for k in range(n):
                    e = Time(float(np.asarray(t)[k]), fmt="mjd", scale="utc")
                    # (only the way to TAI is driven as an operation in this class: the way back does not reproduce the UTC
                    # numbers bit by bit; it is covered by the oracle "scale access commutes with indexing")
                    self._register(e.tai, base + k)
            else:
                for conv in (t, t.tai, getattr(t.tai, t.scale)):
                    self._register(conv, base)

    def _rows(self, x):
        v = np.asarray(x)
        if self.kind == "gps_ws" and getattr(x, "fmt", None) == "gps_ws":
            v = v.reshape(-1, 3)
            return [("ws", float(r[0])) for r in v]
        return [("v", float(r)) for r in np.atleast_1d(v).reshape(-1)]

    def _register(self, t, base):
        j1 = np.atleast_1d(np.asarray(t.jd1, dtype=float))
        j2 = np.atleast_1d(np.asarray(t.jd2, dtype=float))
        for k, r in enumerate(self._rows(t)):
            self.tabv[(t.scale,) + r] = base + k
        for k in range(len(j1)):
            self.tab1[float(j1[k])] = base + k
            self.tab2[(t.scale, float(j2[k]))] = base + k

    def obs(self, x):
        """(scalar, vals tags, jd1 tags, jd2 tags) of a real array; unknown values map to -1"""
        scalar = np.ndim(x.jd1) == 0 if x.jd1 is not None else True
        j1 = np.atleast_1d(np.asarray(x.jd1, dtype=float)) if x.jd1 is not None else []
        j2 = np.atleast_1d(np.asarray(x.jd2, dtype=float)) if x.jd2 is not None else []
        vals = [self.tabv.get((x.scale,) + r, -1) for r in self._rows(x)]
        return (bool(scalar), vals, [self.tab1.get(float(a), -1) for a in j1], [self.tab2.get((x.scale, float(b)), -1) for b in j2],
                CLS.get(x.scale, 99), FMT.get(x.fmt, 99))

    def first_index(self, obj):
        for i, y in enumerate(self.arrs):
            if y is obj:
                return i
        return None

    def plain_tags(self, parts, r):
        """tags of a plain ndarray that should hold the values of `parts` one after the other"""
        rows = []
        v = np.asarray(r)
        pos = 0
        for x in parts:
            if x.fmt == "gps_ws":
                n = len(np.asarray(x).reshape(-1, 3))
                chunk = v.reshape(-1, 3)[pos:pos + n] if v.ndim == 2 else v.reshape(-1)[3 * pos:3 * (pos + n)].reshape(-1, 3)
                rows += [self.tabv.get((x.scale, "ws", float(c[0])), -1) for c in chunk]
            else:
                n = np.asarray(x).size
                chunk = v.reshape(-1)[pos:pos + n]
                rows += [self.tabv.get((x.scale, "v", float(c)), -1) for c in chunk]
            pos += n
        return rows


def show_obs(o):
    f = lambda l: ",".join(str(v) for v in l) if l else "[]"
    return f"{int(o[0])}:{f(o[1])}:{f(o[2])}:{f(o[3])}:{o[4]}:{o[5]}"


def sel_token(sel):
    k = sel[0]
    if k == "s":
        f = lambda v: "_" if v is None else str(v)
        return f"s:{f(sel[1])}:{f(sel[2])}:{sel[3]}"
    if k == "m":
        return "m:" + "".join("1" if b else "0" for b in sel[1]) if sel[1] else "m"
    return "i:" + (",".join(str(v) for v in sel[1]) if sel[1] else "[]")


def op_token(op):
    k = op[0]
    if k in ("getint", "getell"):
        return f"{k}:{op[1]}:{op[2]}"
    if k in ("getsel", "subset"):
        return f"{k}:{op[1]}:{sel_token(op[2])}"
    if k == "insert":
        return f"insert:{op[1]}:{op[2]}:{op[3]}"
    if k == "scale":
        return f"scale:{op[1]}:{CLS[op[2]]}"
    if k == "getbad":
        return f"getbad:{op[1]}:n:{op[2][1]}" if op[2][0] == "n" else f"getbad:{op[1]}:{sel_token(op[2])}"
    if k == "refused":
        return f"refused:{op[1]}:{op[2]}"
    if k == "concat":
        return "concat:" + ",".join(str(i) for i in op[1]) + (":1" if op[2] else ":0")
    return f"{k}:{op[1]}"


def np_index(sel):
    if sel[0] == "s":
        return slice(sel[1], sel[2], sel[3])
    if sel[0] == "m":
        return np.array(sel[1], dtype=bool)
    return list(sel[1])


def py_positions(sel, n):
    """index semantics on a plain list of length n (the oracle's own statement of 'the same indices')"""
    if sel[0] == "s":
        if sel[3] == 0:
            return None
        return list(range(n))[slice(sel[1], sel[2], sel[3])]
    if sel[0] == "m":
        if len(sel[1]) != n:
            return None
        return [k for k in range(n) if sel[1][k]]
    out = []
    for i in sel[1]:
        if -n <= i < n:
            out.append(i % n)
        else:
            return None
    return out


def _shadow(w: World, t, target, variant_rng):
    # an unrelated array holding the same numbers in another scale is converted first: what it computed
    # must not be handed out for `t` (the conversion caches are keyed through __hash__/__eq__)
    try:
        sh_scale = "tt" if t.scale != "tt" else "tcg"
        v = np.asarray(t)
        if t.fmt == "gps_ws":
            v = v.reshape(-1, 3)
            sh = w.Time(v[:, 0].copy(), val2=v[:, 1].copy(), fmt="gps_ws", scale=sh_scale) if np.ndim(t.jd1) else \
                w.Time(float(v[0, 0]), val2=float(v[0, 1]), fmt="gps_ws", scale=sh_scale)
        elif t.fmt == "jd":
            sh = w.Time(np.array(t.jd1), val2=np.array(t.jd2), fmt="jd", scale=sh_scale) if np.ndim(t.jd1) else \
                w.Time(float(t.jd1), val2=float(t.jd2), fmt="jd", scale=sh_scale)
        else:
            sh = w.Time(v.copy() if np.ndim(v) else float(v), fmt=t.fmt, scale=sh_scale)
        if np.array_equal(np.asarray(sh.jd1), np.asarray(t.jd1)) and np.array_equal(np.asarray(sh.jd2), np.asarray(t.jd2)):
            w.shadowed += 1
        getattr(sh, target)
        sh.tai, sh.utc, sh.gps
    except (ValueError, TypeError, IndexError):
        pass


def apply_op(w: World, op, variant_rng, record=False):
    """execute on the real arrays; returns ('A', obs, obj) | ('M', [obs]) | ('P', tags) | ('E',) | ('U', why)
    ('U': the real code did something the operation's letter does not allow for — never equal to a model answer).
    With `record`, the `__array_finalize__` calls of the operation go to w.hooks."""
    if not record or HOOKS is None:
        return _apply_op(w, op, variant_rng)
    HOOKS.events = []
    n0 = len(w.arrs)
    HOOKS.active = True
    try:
        res = _apply_op(w, op, variant_rng)
    finally:
        HOOKS.active = False
    made = w.arrs[n0:]
    toks = []
    for parent, handover, self_ in HOOKS.events:
        is_result = any(self_ is m for m in made)
        if parent is None:
            if is_result:
                toks.append("P")
        else:
            pi = w.first_index(parent)
            if pi is not None and pi < n0:
                toks.append(f"T{pi}{'h' if handover else 'n'}" + ("" if is_result or res[0] in ("E", "P") else "!dropped"))
            elif is_result:
                toks.append("Ttmp")
    HOOKS.events = []
    if op[0] == "scale" and not toks and res[0] == "A" and res[2] is not w.arrs[op[1]]:
        # `_to_scale` is memoised (lru_cache): a conversion done before hands back the array made then, no new one is made
        toks = ["P"]
        w.cached_scale += 1
    w.hooks.append(",".join(toks) if toks else "-")
    for m in made:
        if id(m) not in w.hash0:
            try:
                w.hash0[id(m)] = hash(m)
            except Exception as e:  # noqa
                w.hash0[id(m)] = ("raises", type(e).__name__)
    return res


def _apply_op(w: World, op, variant_rng):
    k = op[0]
    arrs = w.arrs
    if k == "concat":
        parts = [arrs[i] for i in op[1]]
        try:
            if op[2]:
                r = np.append(parts[0], parts[1])
            else:
                r = np.concatenate(parts)
        except (IndexError, ValueError, TypeError) as e:
            return ("U", f"concatenate raises {type(e).__name__}: {e} shapes {[np.shape(x) for x in parts]} fmts {[x.fmt for x in parts]}")
        if hasattr(r, "jd1"):
            return ("U", "concatenate gave a time array")
        return ("P", w.plain_tags(parts, r))
    t = arrs[op[1]] if op[1] < len(arrs) else None
    if t is None:
        return ("E",)
    try:
        if k == "getint":
            i = op[2]
            r = t[np.int64(i)] if variant_rng.random() < 0.3 else t[i]
        elif k == "getell":
            i = op[2]
            r = t[..., i] if t.fmt != "gps_ws" and variant_rng.random() < 0.5 else t[i, ...]
        elif k == "getsel":
            idx = np_index(op[2])
            v = variant_rng.randrange(5)
            if v == 0:
                r = t[(idx,)]
            elif v == 1:
                r = t[idx, ...]
            elif v == 2 and t.fmt == "gps_ws":
                r = t[idx, :]
            else:
                r = t[idx]
        elif k == "getbad":
            first = op[2][1] if op[2][0] == "n" else np_index(op[2])
            try:
                r = t[first, 3] if t.fmt == "gps_ws" else t[first, 0]
            except IndexError:
                return ("E",)
            return ("U", "a tuple index beyond the columns was accepted")
        elif k == "view":
            # ravel()/reshape(-1) of a strided or reversed array need a copy, which NumPy cannot fill in (the array
            # __array_finalize__ hands back is frozen): only driven on contiguous arrays (memory layout is not in the model)
            v = variant_rng.randrange(6 if np.asarray(t).flags.c_contiguous else 4)
            if t.fmt != "gps_ws" and np.ndim(t) == 1:
                r = [t.view, lambda: t.T, lambda: t.reshape(len(t)), lambda: np.add(t, 0), t.ravel, lambda: t.reshape(-1)][v]() if t.size > 0 else t.view()
            else:
                r = [t.view, lambda: np.add(t, 0), lambda: t.view(type(t))][v % 3]() if t.size > 0 else t.view()
        elif k == "same":
            if 1 not in np.shape(t) and variant_rng.random() < 0.5:
                r = t.squeeze()
            else:
                r = getattr(t, t.scale)
            if r is not t:
                return ("U", "squeeze()/own scale did not give back the object itself")
        elif k == "refused":
            try:
                if op[2] == "flatten":
                    t.flatten()
                elif op[2] == "astype":
                    t.astype(float)
                elif op[2] == "unique":
                    np.unique(t)
                else:
                    np.sort(t)
            except (ValueError, TypeError):
                return ("E",)
            return ("U", f"{op[2]} was not refused")
        elif k == "copy":
            v = variant_rng.randrange(3)
            r = [t.copy, lambda: copy.copy(t), lambda: copy.deepcopy(t)][v]()
        elif k == "subset":
            idx = np_index(op[2])
            if isinstance(idx, slice):
                return ("E",)
            r = t.subset(idx, {})
        elif k == "insert":
            b = arrs[op[3]]
            r = type(t).insert(t, op[2], b, {})
        elif k == "scale":
            target = op[2]
            if variant_rng.random() < 0.5 and target != t.scale:
                _shadow(w, t, target, variant_rng)
            r = getattr(t, target)
        elif k == "iter":
            items = [x for x in t]
            out = [w.obs(x) for x in items]
            arrs.extend(items)
            return ("M", out, items)
        elif k == "set":
            return ("E",)
        else:
            return ("E",)
    except (IndexError, ValueError, TypeError):
        return ("E",)
    arrs.append(r)
    return ("A", w.obs(r), r)


class HeapMirror:
    """keeps the model's array numbering in step with the real list: the model appends one array per
    successful op (k arrays for iter), nothing on error"""


def gen_exhaustive_alphabet(n):
    """small alphabet for the bounded-exhaustive part; target 0 = base array, 'L' = last created"""
    A = []
    for tgt in (0, "L"):
        A += [("getint", tgt, 1), ("getint", tgt, -1),
              ("getsel", tgt, ("s", 1, 3, 1)), ("getsel", tgt, ("s", None, None, -1)),
              ("getsel", tgt, ("m", "alt")), ("getsel", tgt, ("i", "rev2")),
              ("view", tgt), ("copy", tgt), ("subset", tgt, ("m", "alt")), ("scale", tgt), ("iter", tgt),
              ("getbad", tgt, ("n", 1)), ("getbad", tgt, ("s", 1, 3, 1)), ("same", tgt), ("refused", tgt, "flatten"),
              ("getell", tgt, -1)]
    A.append(("insert", 0, 1, 1))
    A.append(("concat", [0, 1], False))
    A.append(("refused", 0, "sort"))
    return A


def scale_target(w: World, t):
    if w.kind == "leap":
        return "tai"
    return "tai" if t.scale != "tai" else w.base_scale


def concretise(op, w: World, last):
    """resolve symbolic targets / selections against the current real arrays"""
    if op[0] == "concat":
        return op
    tgt = op[1]
    if tgt == "L":
        tgt = last
    t = w.arrs[tgt]
    n = len(np.atleast_1d(np.asarray(t.jd1))) if np.ndim(t.jd1) > 0 else 0
    if op[0] in ("getsel", "subset"):
        sel = op[2]
        if sel[0] == "m" and sel[1] == "alt":
            sel = ("m", [k % 2 == 0 for k in range(n)])
        elif sel[0] == "i" and sel[1] == "rev2":
            sel = ("i", [n - 1, 0] if n > 0 else [])
        return (op[0], tgt, sel)
    if op[0] in ("getint", "getell"):
        return (op[0], tgt, op[2])
    if op[0] == "insert":
        return ("insert", tgt, op[2], op[3])
    if op[0] == "scale":
        return ("scale", tgt, scale_target(w, t))
    if op[0] in ("getbad", "refused"):
        return (op[0], tgt, op[2])
    return (op[0], tgt)


def is_scalar(t):
    return np.ndim(t.jd1) == 0


def random_sel(rng, n):
    k = rng.random()
    if k < 0.45:
        f = lambda: rng.choice([None, rng.randint(-n - 2, n + 2)])
        return ("s", f(), f(), rng.choice([1, 1, 2, -1, -2, 3]))
    if k < 0.75:
        m = [rng.random() < 0.5 for _ in range(n)]
        if rng.random() < 0.05:
            m = m + [True]  # wrong length
        return ("m", m)
    l = [rng.randint(-n, n - 1) if n > 0 else 0 for _ in range(rng.randint(0, 4))]
    if rng.random() < 0.05:
        l.append(n + 3)  # out of range
    return ("i", l)


def random_op(rng, w: World):
    nonscalar = [i for i, t in enumerate(w.arrs) if not is_scalar(t)]
    anyarr = list(range(len(w.arrs)))
    k = rng.random()
    if k < 0.12:
        t = rng.choice(nonscalar)
        n = len(w.arrs[t].jd1)
        return ("getint" if rng.random() < 0.7 else "getell", t, rng.randint(-n - 1, n))
    if k < 0.32:
        t = rng.choice(nonscalar)
        return ("getsel", t, random_sel(rng, len(w.arrs[t].jd1)))
    if k < 0.40:
        # an index NumPy refuses after the jd parts have been sliced by its first entry (sometimes the first entry is
        # itself out of range); also on single epochs
        t = rng.choice(nonscalar if rng.random() < 0.9 else anyarr)
        n = len(np.atleast_1d(w.arrs[t].jd1))
        if rng.random() < 0.5:
            return ("getbad", t, ("n", rng.randint(-n - 1, n)))
        return ("getbad", t, random_sel(rng, n))
    if k < 0.52:
        return ("view", rng.choice(anyarr))
    if k < 0.55:
        return ("same", rng.choice(anyarr))
    if k < 0.59:
        return ("refused", rng.choice(anyarr), rng.choice(["flatten", "astype", "unique", "sort"]))
    if k < 0.62:
        a = rng.choice(nonscalar)
        same = [i for i in nonscalar if w.arrs[i].fmt == w.arrs[a].fmt]
        ts = [a] + [rng.choice(same) for _ in range(rng.randint(1, 2))]
        # np.append ravels its second argument: refused when that needs a copy (three-column layout, strided or reversed
        # slices: the copy would go into an array __array_finalize__ has frozen) -- memory layout is not in the model
        return ("concat", ts, len(ts) == 2 and w.arrs[a].fmt != "gps_ws" and np.asarray(w.arrs[ts[1]]).flags.c_contiguous
                and rng.random() < 0.6)
    if k < 0.68:
        return ("copy", rng.choice(anyarr))
    if k < 0.75:
        t = rng.choice(nonscalar)
        s = random_sel(rng, len(w.arrs[t].jd1))
        while s[0] == "s":
            s = random_sel(rng, len(w.arrs[t].jd1))
        return ("subset", t, s)
    if k < 0.82:
        a = rng.choice(nonscalar)
        # (leap-second class: only arrays of the scale of `a` are inserted, the way back from TAI does not reproduce the UTC
        # numbers bit by bit and has no tags)
        b = rng.choice([i for i in nonscalar if len(w.arrs[i].jd1) > 0 and (w.kind != "leap" or w.arrs[i].scale == w.arrs[a].scale)]
                       or [a])
        n = len(w.arrs[a].jd1)
        return ("insert", a, rng.randint(-n, n) if rng.random() < 0.9 else n + 2, b)
    if k < 0.90:
        t = rng.choice(anyarr)
        return ("scale", t, scale_target(w, w.arrs[t]))
    if k < 0.97:
        t = rng.choice(nonscalar)
        return ("iter", t)
    return ("set", rng.choice(anyarr))


def check_object(ctx: Ctx, w: World, x, where, case):
    """oracle on one derived array"""
    sc, v, a, b = w.obs(x)[:4]
    if not (v == a == b):
        ctx.violate("misaligned:" + where, f"values {v}, jd1 {a}, jd2 {b} are not the same epochs after {where}", case)
        return
    if -1 in v:
        ctx.violate("unknown-epoch:" + where, "a derived array contains an epoch that was in no source array", case)
    try:
        if len(x) != len(v):
            ctx.violate("len:" + where, f"len() = {len(x)} for {len(v)} epochs" + (" (a single epoch)" if sc else ""), case)
    except TypeError:
        if not sc:
            ctx.violate("len-raises:" + where, "len() of a non-scalar time array raises TypeError", case)
    # derived formats are computed from the jd parts: must agree with the values
    try:
        if x.fmt == "mjd" and np.size(x) > 0:
            if not np.array_equal(np.atleast_1d(np.asarray(x.mjd)), np.atleast_1d(np.asarray(x))):
                ctx.violate("derived-format:" + where, ".mjd differs from the stored values", case)
    except Exception as e:
        ctx.violate("derived-format-raises:" + where, f"{type(e).__name__}: {e}", case)
    # immutability
    for name, arr in (("values", x), ("jd1", x.jd1), ("jd2", x.jd2)):
        if isinstance(arr, np.ndarray) and arr.flags.writeable:
            ctx.violate(f"writable-{name}:" + where, f"{name} of a derived array is writable", case)


SCALES = ("utc", "tai", "gps", "tt", "tcg")


def check_scale_commutes(ctx: Ctx, x, case):
    """scale access commutes with indexing: t.<scale>[i], t[i].<scale> and t[i:i+1].<scale>[0] are the same epoch
    (the conversions are sums and products element by element: the same floating-point numbers are demanded)"""
    n = len(np.atleast_1d(x.jd1))
    for sc in SCALES:
        try:
            whole = getattr(x, sc)
        except Exception as e:  # noqa
            ctx.violate(f"scale-raises:{x.scale}->{sc}", f"{type(e).__name__}: {e}", case)
            continue
        for i in range(n):
            try:
                a, b, c = whole[i], getattr(x[i], sc), getattr(x[i:i + 1], sc)[0]
                got = [(float(y.jd1), float(y.jd2)) for y in (a, b, c)]
            except Exception as e:  # noqa
                ctx.violate(f"scale-commutes-raises:{x.scale}->{sc}", f"{type(e).__name__}: {e}", case)
                break
            if not (got[0] == got[1] == got[2]):
                sec = max(abs((g[0] - got[1][0]) + (g[1] - got[1][1])) for g in got) * 86400
                ctx.violate(f"scale-commutes:{x.scale}->{sc}",
                            f"epoch {i} of a {n}-epoch array: t.{sc}[i], t[i].{sc}, t[i:i+1].{sc}[0] have (jd1, jd2) {got} ({sec:.3g} s apart)", case)
                break
    ctx.count("scale-commutes:arrays-checked")


def check_column_indices(ctx: Ctx, Time):
    """indices that select fields (columns) of the three-column format: whatever comes back as a time array must have a length
    equal to its number of epochs"""
    g = Time(np.array([1000.0 + k for k in range(5)]), val2=np.array([3600.0 * (k + 1) for k in range(5)]), fmt="gps_ws", scale="gps")
    probes = [("g[1:3, 0]", lambda: g[1:3, 0]), ("g[:, 1]", lambda: g[:, 1]), ("g[..., 0]", lambda: g[..., 0]),
              ("g[1:3, 0:2]", lambda: g[1:3, 0:2]), ("g[[0, 2], [0, 1]]", lambda: g[[0, 2], [0, 1]]), ("g[2, 0:2]", lambda: g[2, 0:2]),
              ("g[2][0:1]", lambda: g[2][0:1]), ("g[2][[0, 1]]", lambda: g[2][[0, 1]]), ("g[1:3, :]", lambda: g[1:3, :]),
              ("g[2, 0]", lambda: g[2, 0]), ("g[(2,)]", lambda: g[(2,)]), ("g[2][0]", lambda: g[2][0]), ("g[0:3, 0]", lambda: g[0:3, 0]),
              ("g[2, 0:3]", lambda: g[2, 0:3])]
    for name, f in probes:
        case = {"kind": "gps_ws", "index": name}
        try:
            r = f()
        except (IndexError, ValueError, TypeError):
            ctx.count("column-index:refused")
            continue
        except Exception as e:  # noqa
            ctx.violate("column-index-raises", f"{name} raises {type(e).__name__}: {e}", case)
            continue
        if not hasattr(r, "jd1"):
            ctx.count("column-index:plain-result")
            continue
        n = int(np.size(r.jd1))
        try:
            ln = len(r)
        except TypeError:
            ln = None
        if ln != n:
            ctx.violate("len:column-index", f"{name} is a time array of shape {np.shape(r)} with {n} epochs (jd1) and len() = {ln}", case)
        else:
            ctx.count("column-index:time-array-with-right-length")


def check_split_pairs(ctx: Ctx, Time, rng):
    """the same epochs with another split of the Julian date (mjd/jd split at noon, datetime at midnight; from_jds keeps what it
    is given): whenever two such arrays - or what the same operations derive from them - compare equal, they must hash alike"""
    import copy as _copy

    n = rng.randint(1, 6)
    mjd = np.array([58000.0 + 2 * k + rng.choice([0.25, 0.75, 0.5, 0.125]) for k in range(n)])
    for scale in ("utc", "gps", "tai"):
        a = Time(mjd, fmt="mjd", scale=scale)
        b = Time(a.datetime, fmt="datetime", scale=scale)
        c = type(a).from_jds(np.asarray(a.jd1) - 1.0, np.asarray(a.jd2) + 1.0, "jd")
        i = rng.randrange(n)
        m = np.array([rng.random() < 0.6 for _ in range(n)])
        derive = [("itself", lambda x: x), ("x[i]", lambda x: x[i]), ("x[i:]", lambda x: x[i:]), ("x[::-1]", lambda x: x[::-1]),
                  ("x[mask]", lambda x: x[m]), ("x[[i, 0]]", lambda x: x[[i, 0]]), ("subset", lambda x: x.subset([i], {})),
                  ("copy", lambda x: _copy.copy(x)), ("x.tai", lambda x: x.tai), ("x.tt", lambda x: x.tt)]
        for name, f in derive:
            xs = [f(y) for y in (a, b, c)]
            for u, v, which in ((xs[0], xs[1], "mjd/datetime"), (xs[0], xs[2], "mjd/from_jds")):
                case = {"kind": "split", "scale": scale, "mjd": [float(q) for q in mjd], "derived": name, "pair": which}
                differ = not (np.array_equal(np.asarray(u.jd1), np.asarray(v.jd1)) and np.array_equal(np.asarray(u.jd2), np.asarray(v.jd2)))
                try:
                    eq = bool(u == v)
                except Exception:  # noqa
                    continue
                ctx.count(f"split-pair:{'other-split' if differ else 'same-split'}:eq={int(eq)}")
                if eq and hash(u) != hash(v):
                    ctx.violate("hash-eq:other-split", f"{name} of two {scale} arrays holding the same epochs with another jd1/jd2 split "
                                f"({which}) compare equal and hash differently", case)


def check_format_commutes(ctx: Ctx, Time, rng):
    """format access commutes with indexing: t.<fmt>[i] is t[i].<fmt>, for every format, on arrays that hold distinct epochs
    1 ... 39 microseconds apart (closer than a single float Julian date resolves) and equal epochs, and on what is derived
    from them"""
    from datetime import datetime, timedelta
    from midgard.data import _time

    fmts = list(_time._FORMATS["TimeFormat"].keys())
    n = rng.randint(2, 7)
    us = [rng.choice([0, 1, 2, 7, 20, 39, 40, 250]) for _ in range(n)]
    base = datetime(2017, 9, 4, 6, 0, 0) + timedelta(days=rng.randint(0, 400), seconds=rng.randint(0, 86399))
    if rng.random() < 0.5:
        t, how = Time([base + timedelta(microseconds=u) for u in us], fmt="datetime", scale=rng.choice(["utc", "gps", "tai"])), "datetime"
    else:
        t, how = Time(np.full(n, 2458000.5 + rng.randint(0, 300)), val2=np.array([0.25 + u * 1e-6 / 86400 for u in us]), fmt="jd",
                      scale=rng.choice(["utc", "gps", "tai"])), "jd"
    m = np.array([rng.random() < 0.7 for _ in range(n)])
    derived = [("t", t), ("t[::-1]", t[::-1]), ("t[mask]", t[m]), ("t[[n-1, 0, n-1]]", t[[n - 1, 0, n - 1]]), ("t[1:]", t[1:]),
               ("t.tai", t.tai), ("t.gps", t.gps), ("t.subset", t.subset([0, n - 1], {}))]
    close = sum(1 for a in range(n) for b in range(a) if 0 < abs(us[a] - us[b]) < 40)
    ctx.count("format-commutes:arrays-with-epochs-closer-than-40us" if close else "format-commutes:arrays-without-close-epochs")
    for name, x in derived:
        k = len(np.atleast_1d(x.jd1))
        case = {"kind": "format", "built-from": how, "scale": t.scale, "microseconds": us, "derived": name}
        for f in fmts:
            try:
                whole = np.asarray(getattr(x, f))
            except ValueError:
                continue     # format of another scale
            for i in range(k):
                single = np.asarray(getattr(x[i], f))
                w = whole[..., i]
                same = bool(np.all(w == single)) if w.dtype == object or w.dtype.kind in "US" else np.array_equal(w, single)
                if not same:
                    ctx.violate(f"format-commutes:{f}", f"{name}: epoch {i} of {k} (microseconds {us}): t.{f}[i] = {w!r}, t[i].{f} = {single!r}", case)
                    break
        if x.fmt == "datetime" and k:
            vals = np.atleast_1d(np.asarray(x))
            for i in range(k):
                if vals[i] != np.asarray(x[i]).item():
                    ctx.violate("format-commutes:val", f"{name}: stored value {i} of a datetime array is {vals[i]!r}, t[i] holds {np.asarray(x[i]).item()!r}", case)
                    break


def check_field_padding(ctx: Ctx, Time, rng):
    """time fields of a dataset padded in one extend (one memo): every padded field is its own epochs with the padding rows
    spliced in at the end (append) or in front (prepend) - values, jd1 and jd2"""
    from datetime import datetime
    from midgard.data import dataset

    n1, n2 = rng.randint(1, 5), rng.randint(1, 5)
    scales = [rng.choice(["utc", "gps", "tai"]) for _ in range(3)]
    if rng.random() < 0.6:
        scales = [scales[0]] * 3
    mk = lambda j, n: np.array([58000.0 + 10 * j + k + (k + 1) / 64.0 for k in range(n)])
    names = ["ta", "tb", "tc"][:rng.randint(2, 3)]
    for mode in ("append", "prepend"):
        d1 = dataset.Dataset(n1)
        src = {}
        for j, nm in enumerate(names):
            d1.add_time(nm, val=mk(j, n1), scale=scales[j], fmt="mjd")
            src[nm] = d1[nm]
        d1.add_float("x", val=np.arange(n1, dtype=float))
        d2 = dataset.Dataset(n2)
        d2.add_float("x", val=np.arange(n2, dtype=float))
        case = {"kind": "field-padding", "mode": mode, "rows": [n1, n2], "fields": names, "scales": scales[:len(names)]}
        try:
            if mode == "append":
                d1.extend(d2)
                out = d1
            else:
                d2.extend(d1)
                out = d2
        except Exception as e:  # noqa
            ctx.violate("field-padding-raises:" + mode, f"{type(e).__name__}: {e}", case)
            continue
        ctx.count(f"field-padding:{mode}:{'same-scale' if len(set(scales[:len(names)])) == 1 else 'mixed-scales'}:{'same-count' if n1 == n2 else 'other-count'}")
        for j, nm in enumerate(names):
            got = out[nm]
            pad = Time([datetime.min] * n2, scale=scales[j], fmt="datetime")
            parts = (src[nm], pad) if mode == "append" else (pad, src[nm])
            want = [np.concatenate([np.atleast_1d(np.asarray(getattr(q, a), dtype=float)) for q in parts]) for a in ("mjd", "jd1", "jd2")]
            have = [np.atleast_1d(np.asarray(got, dtype=float)), np.atleast_1d(got.jd1), np.atleast_1d(got.jd2)]
            if not all(w.shape == h.shape and np.array_equal(w, h) for w, h in zip(want, have)):
                ctx.violate("field-padding:" + mode, f"time field {nm!r} after extend: values {have[0].tolist()}, expected its own epochs with "
                            f"{n2} padding rows {want[0].tolist()}", case)
                break


def check_immutable(ctx: Ctx, x, case):
    before = (np.asarray(x).tolist(), np.asarray(x.jd1).tolist(), np.asarray(x.jd2).tolist(), x.fmt)
    for what, f in (("setitem", lambda: x.__setitem__(0 if np.ndim(x) else (), 1.0)),
                    ("setattr fmt", lambda: setattr(x, "fmt", "jd")),
                    ("setattr jd1", lambda: setattr(x, "jd1", 0.0)),
                    ("new attr", lambda: setattr(x, "foo", 1))):
        try:
            f()
            ctx.violate("mutable:" + what, f"{what} on a time array did not raise", case)
        except (ValueError, AttributeError, TypeError, IndexError):
            pass
    after = (np.asarray(x).tolist(), np.asarray(x.jd1).tolist(), np.asarray(x.jd2).tolist(), x.fmt)
    if before != after:
        ctx.violate("mutated", "a refused assignment changed the array", case)


def run_sequence(ctx: Ctx, Time, kind, sizes, ops_symbolic, rng, exhaustive):
    w = World(Time, kind, sizes)
    outs = []
    ops = []
    results = []  # (op, kind, obs)
    last = 0
    for sop in ops_symbolic:
        if callable(sop):
            op = sop(w)
        else:
            op = concretise(sop, w, last)
            if op[0] != "concat" and is_scalar(w.arrs[op[1]]) and op[0] in ("getint", "getell", "getsel", "subset", "iter", "insert"):
                op = ("view", op[1])
        ops.append(op)
        nbefore = len(w.arrs)
        state = rng.getstate()
        r = apply_op(w, op, rng, record=True)
        results.append((op, r, state))
        if r[0] == "A":
            outs.append("A:" + show_obs(r[1]))
            last = len(w.arrs) - 1
        elif r[0] == "M":
            outs.append("M:" + ";".join(show_obs(o) for o in r[1]))
            if r[1]:
                last = len(w.arrs) - 1
        elif r[0] == "P":
            outs.append("P:" + (",".join(str(v) for v in r[1]) if r[1] else "[]"))
            assert len(w.arrs) == nbefore
        elif r[0] == "U":
            outs.append("U:" + r[1].replace(" ", "_"))
            assert len(w.arrs) == nbefore
        else:
            outs.append("E")
            assert len(w.arrs) == nbefore
        ctx.count(f"out:{op[0]}:{r[0]}")
        if op[0] == "getbad":
            tt = w.arrs[op[1]]
            if is_scalar(tt):
                ctx.count("getbad:single-epoch-target")
            else:
                n = len(tt.jd1)
                ok = (-n <= op[2][1] < n) if op[2][0] == "n" else py_positions(op[2], n) is not None
                ctx.count("getbad:refused-by-the-jd-parts(one column)" if tt.fmt != "gps_ws" else
                          "getbad:jd-parts-sliced-then-refused" if ok else "getbad:first-entry-refused")
    # pairs of arrays for == / hash: arrays holding the same epochs (by whatever path they were derived), and random ones
    groups = {}
    for i, x in enumerate(w.arrs):
        if w.first_index(x) == i:
            o = w.obs(x)
            groups.setdefault((tuple(o[2]), tuple(o[3])), []).append(i)
    pairs = []
    for key, idx in groups.items():
        if len(key[0]) > 0:
            pairs += list(zip(idx, idx[1:]))
    if len(pairs) > 12:
        pairs = rng.sample(pairs, 12)
    for _ in range(4):
        pairs.append((rng.randrange(len(w.arrs)), rng.randrange(len(w.arrs))))
    real_pairs = []
    for i, j in pairs:
        a, b = w.arrs[i], w.arrs[j]
        try:
            e = "1" if bool(a == b) else "0"
        except Exception:  # noqa
            e = "X"
        try:
            hq = hash(a) == hash(b)
        except Exception:  # noqa
            hq = None
        real_pairs.append((e, hq))
    case = {"kind": kind, "sizes": list(sizes), "ops": [op_token(o) for o in ops]}
    line = ("c04 run src " + " ".join(f"F:{b}:{n}:{c}:{f}" for b, n, c, f in w.fresh) + " | " + " ".join(op_token(o) for o in ops)
            + " | " + " ".join(f"{i}:{j}" for i, j in pairs))
    answer = ctx.driver.ask1(line)
    parts = answer.split(" # ")
    model = parts[0]
    impl = "|".join(outs)
    ctx.case(case, nontrivial=len(ops) > 1)
    ctx.count(f"len={min(len(ops), 10)}{'+' if len(ops) > 10 else ''}")
    for o in ops:
        ctx.count("op:" + o[0])
    if model != impl:
        ctx.disagree("operation sequence vs heap machine", case, model, impl)
    elif len(parts) == 3:
        # the __array_finalize__ calls the real code made against the model's notion of parent (heap positions of one object
        # that sits in the list twice are named by the first)
        def canon(tok):
            if tok.startswith("T") and tok[1:-1].isdigit():
                fi = w.first_index(w.arrs[int(tok[1:-1])])
                return f"T{fi}{tok[-1]}"
            return tok

        mh = "|".join(",".join(canon(t) for t in h.split(",")) for h in parts[1].split("|")) if ops else ""
        ih = "|".join(w.hooks)
        for h in w.hooks:
            for t in h.split(","):
                ctx.count("hook:" + ("T.h" if t.endswith("h") else "T.n" if t.endswith("n") else t))
        if mh != ih:
            ctx.disagree("__array_finalize__ calls (parent, hand-over present) vs the model's hooks", case, mh, ih)
        meq = parts[2].split() if parts[2].strip() else []
        for (i, j), (e, hq), m in zip(pairs, real_pairs, meq):
            ctx.count(f"pair:eq={e}" + (":other-fmt" if e == "1" and w.arrs[i].fmt != w.arrs[j].fmt else ""))
            if e != m[0]:
                ctx.disagree("a == b vs the model's pyEq (class, shape, jd parts)", dict(case, pair=[i, j]), m[0], e)
            elif m[1] == "1" and hq is not True:
                ctx.disagree("hash(a) == hash(b) whenever everything __hash__ reads agrees", dict(case, pair=[i, j]), "equal hashes", str(hq))
    else:
        ctx.disagree("driver answer", case, answer, impl)
    # every array hashes as it did when it came into being (hash_stable_under_reads)
    for x in w.arrs:
        h0 = w.hash0.get(id(x))
        if h0 is not None and not isinstance(h0, tuple):
            try:
                if hash(x) != h0:
                    ctx.violate("hash-changed", "the hash of a time array changed after later reads", case)
            except Exception as e:  # noqa
                ctx.violate("hash-raises", f"hash() raises {type(e).__name__} after later reads", case)
    # ---------------- oracle ----------------
    for x in w.arrs:
        check_object(ctx, w, x, "history", case)
    # index semantics against plain list indexing; re-execution independence
    for (op, r, state) in results:
        if op[0] in ("getint", "getell", "getsel", "subset", "copy", "view", "iter") and r[0] in ("A", "M"):
            # what is taken out of an array is in the scale and the format of that array
            par = w.arrs[op[1]]
            for x in ([r[2]] if r[0] == "A" else r[2]):
                if (x.fmt, x.scale) != (par.fmt, par.scale):
                    ctx.violate(f"fmt-scale:{op[0]}", f"{op_token(op)} on a {par.scale}/{par.fmt} array gave a {x.scale}/{x.fmt} result", case)
                    break
        if op[0] in ("getsel", "subset") and r[0] == "A":
            parent = w.obs(w.arrs[op[1]])
            pos = py_positions(op[2], len(parent[1]))
            if pos is None or [parent[1][p] for p in pos] != r[1][1]:
                ctx.violate(f"index-semantics:{op[0]}", f"{op_token(op)} selected {r[1][1]} from {parent[1]}", case)
        if op[0] in ("getint", "getell") and r[0] == "A":
            parent = w.obs(w.arrs[op[1]])
            if not (-len(parent[1]) <= op[2] < len(parent[1])) or [parent[1][op[2]]] != r[1][1]:
                ctx.violate("index-semantics:" + op[0], f"{op_token(op)} gave {r[1][1]} from {parent[1]}", case)
        if op[0] != "set":
            n0 = len(w.arrs)
            saved = rng.getstate()
            rng.setstate(state)
            r2 = apply_op(w, op, rng)
            rng.setstate(saved)
            if (r[0], r[1] if len(r) > 1 else None) != (r2[0], r2[1] if len(r2) > 1 else None):
                ctx.violate(f"history-dependence:{op[0]}", f"{op_token(op)} gave a different result when repeated after later operations", case)
            del w.arrs[n0:]
    # hash / eq between arrays with equal epochs
    groups = {}
    for x in w.arrs:
        o = w.obs(x)
        groups.setdefault((x.scale, o[0], tuple(o[2]), tuple(o[3])), []).append(x)
    for key, xs in groups.items():
        for a, b in zip(xs, xs[1:]):
            try:
                eq = bool(a == b)
            except Exception:
                continue
            if eq and hash(a) != hash(b):
                ctx.violate("hash-eq", "two equal time arrays have different hashes", case)
            if not eq and len(key[2]) > 0:
                ctx.violate("eq-same-epochs", "two arrays with identical jd parts compare unequal", case)
    # scale access commutes with indexing (every array of the leap-second class, a sample of the others)
    cand = [x for i, x in enumerate(w.arrs) if not is_scalar(x) and w.first_index(x) == i and len(x.jd1) > 0]
    if kind == "leap":
        for x in cand:
            o = [float(a) + float(b) for a, b in zip(np.atleast_1d(x.jd1), np.atleast_1d(x.jd2))]
            sorted_like = all(a <= b for a, b in zip(o, o[1:]))
            ctx.count("leap:array-" + ("in-time-order" if sorted_like else "not-in-time-order") + ("-3+epochs" if len(o) >= 3 else ""))
    if kind == "leap":   # reordered arrays of 3 and more epochs first
        def _prio(x):
            o = [float(a) + float(b) for a, b in zip(np.atleast_1d(x.jd1), np.atleast_1d(x.jd2))]
            return (not (len(o) >= 3 and any(a > b for a, b in zip(o, o[1:]))), -len(o))
        cand = sorted(cand, key=_prio)
    for x in (cand[:5] if kind == "leap" else rng.sample(cand, min(1, len(cand))) if exhaustive is False or rng.random() < 0.03 else []):
        check_scale_commutes(ctx, x, case)
    ctx.count("cross-scale-shadow-same-jd", w.shadowed) if w.shadowed else None
    ctx.count("scale-conversion-from-the-memo(no new array)", w.cached_scale) if w.cached_scale else None
    if exhaustive is False and rng.random() < 0.3:
        for x in rng.sample(w.arrs, min(3, len(w.arrs))):
            check_immutable(ctx, x, case)
    return w


def path_sequence(rng):
    """the same epochs reached along different derivation paths: t[s1][s2], t[[composed]], t.subset([composed]), copies,
    views, the way to TAI and back — the pairs these make are what `sel_of_sel_eq_direct`, `copy_view_eq` and
    `scale_round_trip_eq` speak about"""
    def two_sels(w):
        n = len(w.arrs[0].jd1)
        for _ in range(50):
            s1, s2 = random_sel(rng, n), None
            p1 = py_positions(s1, n)
            if p1 is None:
                continue
            s2 = random_sel(rng, len(p1))
            p2 = py_positions(s2, len(p1))
            if p2 is not None:
                return s1, s2, [p1[q] for q in p2]
        return ("s", None, None, 1), ("s", None, None, 1), list(range(n))

    st = {}

    def first(w):
        st["s"] = two_sels(w)
        return ("getsel", 0, st["s"][0])

    return [first,
            lambda w: ("getsel", len(w.arrs) - 1, st["s"][1]),
            lambda w: ("getsel", 0, ("i", st["s"][2])),
            lambda w: ("subset", 0, ("i", st["s"][2])),
            lambda w: ("copy", len(w.arrs) - 3),
            lambda w: ("view", len(w.arrs) - 3),
            lambda w: ("scale", len(w.arrs) - 2, "tai"),
            lambda w: ("scale", len(w.arrs) - 1, w.base_scale if w.kind != "leap" else "tai"),
            lambda w: ("same", len(w.arrs) - 1)]


def ambient_slice(payload):
    """arrays built from naive datetimes and what the property's operations derive from them (slices, masks, index lists,
    insert, a time field padded with datetime.min epochs by Dataset.extend, scale and format read-outs), as canonical items
    [[what], [jd1, jd2, datetimes]] - evaluated by harness/ambient.py in child interpreters with other TZ / locale / hash seed"""
    import sys
    from datetime import datetime, timedelta
    from midgard.data.time import Time
    from midgard.data import dataset

    def canon(x):
        j1 = [float(v).hex() for v in np.atleast_1d(np.asarray(x.jd1, dtype=float))]
        j2 = [float(v).hex() for v in np.atleast_1d(np.asarray(x.jd2, dtype=float))]
        return [j1, j2, [d.isoformat() for d in np.atleast_1d(x.datetime)], x.fmt, x.scale, len(x)]

    out = []
    for scale in payload["scales"]:
        for base_iso, us in payload["arrays"]:
            base = datetime.fromisoformat(base_iso)
            t = Time([base + timedelta(microseconds=u) for u in us], fmt="datetime", scale=scale)
            n = len(us)
            mask = np.array([k % 2 == 0 for k in range(n)])
            derived = [("t", t), ("t[::-1]", t[::-1]), ("t[mask]", t[mask]), ("t[[n-1, 0]]", t[[n - 1, 0]]), ("t[0]", t[0]),
                       ("t.tai", t.tai), ("t.tai[1:]", t.tai[1:]), ("copy", t.copy()), ("subset", t.subset([0, n - 1], {})),
                       ("insert", type(t).insert(t, 1, t[::-1], {}))]
            d1 = dataset.Dataset(n)
            d1.add_time("ta", val=[base + timedelta(microseconds=u) for u in us], scale=scale, fmt="datetime")
            d1.add_float("x", val=np.arange(n, dtype=float))
            d2 = dataset.Dataset(2)
            d2.add_float("x", val=np.arange(2, dtype=float))
            d1.extend(d2)
            derived.append(("padded field", d1.ta))
            for name, x in derived:
                ident = [scale, base_iso, list(us), name]
                try:
                    out.append([ident, canon(x)])
                    out.append([ident + ["a == a and equal hashes"], [bool(x == x[...]), hash(x) == hash(x[...]) if np.ndim(x.jd1) else True]])
                except Exception as e:  # noqa
                    out.append([ident, f"raise {type(e).__name__}"])
    return out


def fmt_pair_sequence(rng):
    """single epochs read from an array and from an equal array in another format (a gps_ws array and its way to TAI and
    back, which comes in format jd): each read must give an epoch in the format of the array it was read from"""
    st = {}

    def first(w):
        st["i"] = rng.randrange(len(w.arrs[0].jd1))
        return ("getint", 0, st["i"])

    return [first, lambda w: ("iter", 0), lambda w: ("scale", 0, "tai"),
            lambda w: ("scale", len(w.arrs) - 1, w.base_scale if w.kind != "leap" else "tai"),
            lambda w: ("getint", len(w.arrs) - 1, st["i"]), lambda w: ("iter", len(w.arrs) - 2), lambda w: ("getell", 0, st["i"]),
            lambda w: ("getint", 0, st["i"] - len(w.arrs[0].jd1))]


def run(ctx: Ctx):
    global HOOKS
    from translator import extract_timearray

    changed = extract_timearray.generate()
    ctx.count("generated-mech-changed" if changed else "generated-mech-unchanged")
    ctx.proof = common.prove("C04")
    Time = _imp()
    rng = ctx.rng
    ctx.rule = ("operation sequences over {t[i], t[a:b:c], t[mask], t[int list] (also as one-entry tuples / with Ellipsis / ':'), "
                "tuple indices NumPy refuses (g[first, 3]: after the jd parts were sliced; t[first, 0]), single epochs as tuple indices (t[i, ...], t[..., i]), view/T/reshape/ravel/ufunc, "
                "squeeze()/own scale (the object itself), flatten/astype/np.unique/np.sort (refused), np.concatenate/np.append (plain "
                "ndarray), copy/copy.copy/deepcopy, subset, insert, scale conversion there and back, iterate, refused assignment}: "
                "all sequences up to length L over a 35-letter alphabet (31 letters at length 3) (targets: base array / last result) for 1-column (mjd) and "
                "3-column (gps_ws) arrays, plus random sequences up to length 40 over arrays of length 0..6 and derivation-path "
                "sequences (t[s1][s2] / t[[composed]] / subset / copy / view / TAI and back); for every operation the "
                "__array_finalize__ calls of the real code are recorded and compared with the model's, for pairs of arrays == and "
                "hash agreement; non-trivial = more than one operation; distinct by the operation list")
    ctx.trusted += ["translator/extract_timearray.py (AST facts about __getitem__/__array_finalize__/__hash__/__eq__)",
                    "that NumPy calls __array_finalize__ as recorded here for the operations driven (the hook calls of every operation of "
                    "every generated history are compared with the model's; operations never driven are not covered)"]
    HOOKS = HookLog()
    with HOOKS:
        _run_all(ctx, Time, rng)
    HOOKS = None


def _run_all(ctx: Ctx, Time, rng):
    ctx.assumptions += ["epochs of the source arrays are pairwise distinct so that values, jd1 and jd2 can each be mapped to origin tags"]
    L = 3 if ctx.thorough else 2
    alphabet = gen_exhaustive_alphabet(4)
    n_ex = 0
    for kind in ("mjd", "gps_ws", "leap"):
        for length in range(1, (L if kind != "leap" else L - 1) + 1):
            # (length 3: without four letters on the base array whose effect is covered at length 2 - keeps the thorough tier
            # inside its time)
            letters = alphabet if length < 3 else [a for a in alphabet if a not in (
                ("same", 0), ("refused", 0, "flatten"), ("refused", 0, "sort"), ("getbad", 0, ("s", 1, 3, 1)))]
            for seq in itertools.product(letters, repeat=length):
                run_sequence(ctx, Time, kind, (4, 2), list(seq), rng, True)
                n_ex += 1
    ctx.extra["exhaustive_sequences"] = n_ex
    ctx.extra["exhaustive_max_length"] = L
    # a sample of length-(L+1) sequences
    for _ in range(ctx.budget(300, 4000)):
        kind = rng.choice(["mjd", "gps_ws", "leap"])
        seq = [rng.choice(alphabet) for _ in range(L + 1)]
        run_sequence(ctx, Time, kind, (4, 2), seq, rng, True)
    # long random sequences
    for _ in range(ctx.budget(150, 3500)):
        kind = rng.choice(["mjd", "gps_ws", "leap"])
        sizes = (rng.randint(1, 6), rng.randint(1, 4))
        length = rng.randint(3, 40)
        seq = [(lambda w, _r=rng: random_op(_r, w)) for _ in range(length)]
        run_sequence(ctx, Time, kind, sizes, seq, rng, False)
    check_column_indices(ctx, Time)
    for _ in range(ctx.budget(20, 300)):
        check_split_pairs(ctx, Time, rng)
    for _ in range(ctx.budget(40, 600)):
        check_format_commutes(ctx, Time, rng)
    for _ in range(ctx.budget(40, 600)):
        check_field_padding(ctx, Time, rng)
    # none of it depends on the time zone, the locale or the hash seed of the process (child interpreters, harness/ambient.py)
    from . import ambient
    payload = {"scales": ["utc", "gps"],
               "arrays": [["2017-09-04T06:00:00", [0, 1, 39, 250]], ["2016-12-31T23:59:58", [0, 1500000, 3000000]],
                          ["2015-03-29T01:30:00", [0, 3600000000, 7200000000]], ["2021-10-31T00:30:00", [0, 5400000000, 9000000000]]]}
    ctx.extra["ambient_items_compared"] = ambient.compare(ctx, "harness.c04:ambient_slice", payload)
    # derivation paths to the same epochs
    for _ in range(ctx.budget(120, 2000)):
        kind = rng.choice(["mjd", "gps_ws", "leap"])
        run_sequence(ctx, Time, kind, (rng.randint(2, 6), rng.randint(1, 3)), path_sequence(rng) if rng.random() < 0.7 else fmt_pair_sequence(rng),
                     rng, False)
    ctx.traces = ctx.evaluations


def replay(payload):
    print(json.dumps(payload, indent=1)[:3000])
    c = payload.get("replay", {})
    if "ops" in c:
        print("operation sequence:", " ".join(c["ops"]), "on", c.get("kind"), c.get("sizes"))
    return 0
