"""C05 — geocentric <-> geodetic conversion is exact and keeps its ellipsoid.

translate:   translator/extract_geodesy.py → Generated/Ellipsoids.lean (registered ellipsoids),
             Generated/EllipsoidFlow.lean (ast over _position.py: which constructor calls forward `ellipsoid`)
prove:       lean/Midgard/Props/C05.lean (ellipsoid parameters, normal parametrisation, structure of trs2llh,
             ell_flow over the regenerated table)
correspond:  * ellipsoid table and derived parameters: real `Ellipsoid` objects vs the generated table / the model at
               `Rat` (exact twin) and `Float`
             * transformation.trs2llh / llh2trs vs the `Float` model (same formulas through libm), all 7 ellipsoids,
               shapes (3,), (1,3), (n,3), special points
             * operation sequences on real Position / PosVel objects vs the attribute-flow machine over the
               regenerated constructor-call table
oracle:      stated on the real code: the returned (lat, lon, h) is the point whose ellipsoid normal at distance h is
             the input (residual of an exact mpmath llh2trs), round trips, the accuracy figures of the published
             one-step algorithm against an mpmath reference (MEASURED, not proved), same numbers for all shapes,
             and `.ellipsoid` after every conversion / slice / subset / arithmetic / copy
"""
from __future__ import annotations

import copy
import json
import math
import subprocess
import warnings
from fractions import Fraction
from pathlib import Path

import numpy as np

from . import common
from .common import Ctx, frac
from .geo_common import disagree as gdisagree, violate as gviolate, leancheck, run_corpus
from .geo_common import PI, as_shape, close, fbits, fline, floats, gen_lat, gen_lon, rats, rows_of, ulps, unit_dir

HERE = Path(__file__).resolve().parent

# the property's own figures
NEAR = 1e-6      # m, within 100 km of the surface
FAR = 2e-3       # m, up to 50 000 km altitude
ALGO = 1e-8      # m, against the algorithm's exact-arithmetic result


def _imp():
    from midgard.data.position import Position, PositionDelta, PosVel, PosVelDelta
    from midgard.data._position import PositionArray, PosVelArray
    from midgard.math import ellipsoid, transformation

    return Position, PositionDelta, PosVel, PosVelDelta, PositionArray, PosVelArray, ellipsoid, transformation


def translate():
    from translator import extract_c05, extract_geodesy

    return {**extract_geodesy.write_all(), **extract_c05.write_all()}


def run(ctx: Ctx):
    warnings.simplefilter("ignore")
    np.seterr(all="ignore")
    ctx.extra["translated"] = translate()
    ctx.proof = common.prove("C05")
    leancheck(ctx, "C05")
    ctx.rule = ("points: random directions x heights -100 km..100 km / 100 km..50 000 km, exact poles, near-axis points "
                "(p = 1e-12..1e-9 m and both sides of the pole-branch threshold p² = a²·1e-32), equator (z = ±0), the "
                "±180° meridian (y = ±0, x < 0), southern hemisphere; all registered ellipsoids incl. the sphere; shapes "
                "(3,), (1,3), (n,3); both directions. Operation sequences (length 1..6) of convert / row-slice / fancy "
                "index-view-copy / subset / ±delta / deepcopy / PosVel.pos / empty_from / insert on Position and PosVel "
                "objects created on every registered ellipsoid. A point is non-trivial when off the special sets; a "
                "sequence when it contains an operation that builds a new object through a constructor call. Arithmetic: "
                "every operand order pos±delta / delta±pos / delta±delta / pos−pos / pos+pos / pos±=delta, Position and PosVel, "
                "shapes (3,),(1,3),(n,3), position operand, second operand and the differences' ref_pos on independently drawn "
                "ellipsoids (all 7x7 pairs first), same and different systems; non-trivial when two ellipsoids are involved. "
                "Dataset.extend (append/prepend-empty, extend, mixed ellipsoids) on position/posvel fields of every ellipsoid. "
                "Function-level API: trs2llh / llh2trs called with ndarray / list / Position / slice of a Position / PosVel.pos created on "
                "ellipsoid A and explicit ellipsoid= B or none (all 7x8 pairs first); non-trivial when B is given and differs from A.")
    ctx.trusted += ["mpmath (tooling venv) as high-precision reference: the accuracy figures of the one-step algorithm are "
                    "MEASURED on the sampled points, not proved",
                    "floating-point error is measured (Float model vs NumPy: lat/lon <= 4 ulp or 1e-15 rad, height <= 4 ulp of "
                    "the geocentric distance), not proved", "libm atan/atan2/sqrt/sin/cos trusted",
                    "translator/extract_geodesy.py: `ast` classification of constructor calls in _position.py "
                    "(validated on every run by replaying operation sequences on real objects)",
                    "NumPy broadcasting over rows modelled as map; `x ** 3` modelled as x*x*x"]
    ctx.assumptions += ["model inputs are the exact doubles the implementation was given",
                        "Dataset I/O (`_read`/`_write`, where the ellipsoid travels by name) belongs to C10 and is not in the flow machine"]
    check_table(ctx)
    check_conversions(ctx)
    check_flow(ctx)
    check_arith(ctx)
    check_external_sites(ctx)
    check_wrappers(ctx)
    ctx.traces = ctx.evaluations


# --------------------------------------------------------------------------------------------------
# ellipsoid table and parameters


def check_table(ctx: Ctx):
    *_, ellipsoid, T = _imp()
    drv = ctx.driver
    names_model = drv.ask1("c05 ellnames").split(",")
    names_impl = list(ellipsoid._ELLIPSOIDS)
    case = {"fn": "ellipsoid table", "impl": names_impl}
    ctx.case(case)
    if sorted(names_model) != sorted(names_impl):
        gdisagree(ctx, "registered ellipsoids (generated table)", case, names_model, names_impl)
    for name in names_impl:
        E = ellipsoid.get(name)
        case = {"fn": "ellipsoid parameters", "ellipsoid": name, "a": E.a, "f_inv": E.f_inv}
        ctx.case(case)
        ctx.count("ellipsoid-params")
        if not (math.isfinite(E.a) and not math.isnan(E.f_inv)):
            gviolate(ctx, "params:non-finite", f"{name}: defining constants a = {E.a!r}, f_inv = {E.f_inv!r}", case)
            continue
        row = drv.ask1(f"c05 ell {name}")
        want = f"{common.rs(frac(E.a))} {'-' if math.isinf(E.f_inv) else common.rs(frac(E.f_inv))}"
        if row != want:
            gdisagree(ctx, "ellipsoid table row", case, row, want)
            continue
        qf, qb, qe2 = rats(drv.ask1(f"c05 q params {name}"))
        ff, fb, fe2 = floats(drv.ask1(f"c05 f params {name}"))
        # ---- every outcome of the real code is classified: exceptions and non-finite values are oracle failures
        impl, bad = [], []
        for attr in ("f", "b", "e2", "eps"):
            try:
                v = float(getattr(E, attr))
            except Exception as e:  # noqa: BLE001
                v = math.nan
                bad.append(f"{attr} raises {type(e).__name__}")
            else:
                if not math.isfinite(v):
                    bad.append(f"{attr} = {v!r}")
            impl.append(v)
        # the closed forms of the defining constants (a, 1/f), exact: f = 1/f_inv (0 for the sphere), b = a(1-f),
        # e2 = 2f - f², eps = e2/(1-e2) -- independent of the object under test and of the model
        a = frac(E.a)
        f_x = Fraction(0) if math.isinf(E.f_inv) else 1 / frac(E.f_inv)
        b_x, e2_x = a * (1 - f_x), 2 * f_x - f_x * f_x
        eps_x = e2_x / (1 - e2_x)
        pcase = {**case, "f": impl[0], "b": impl[1], "e2": impl[2], "eps": impl[3],
                 "closed_forms": {"f": float(f_x), "b": float(b_x), "e2": float(e2_x), "eps": float(eps_x)}}
        if bad:
            gviolate(ctx, "params:non-finite", f"{name} (a = {E.a!r}, f_inv = {E.f_inv!r}): " + ", ".join(bad)
                     + f"; the closed forms are f = {float(f_x)!r}, b = {float(b_x)!r}, e2 = {float(e2_x)!r}", pcase)
            ctx.count("ellipsoid-params:non-finite")
            continue
        if not (close(impl[0], ff, ulp=1) and close(impl[1], fb, ulp=1) and close(impl[2], fe2, ulp=1)):
            gdisagree(ctx, "Ellipsoid.f/b/e2 (Float model)", case, [ff, fb, fe2], list(impl[:3]))
        # exact twin: the doubles are within rounding of the exact rational values of the same formulas
        if (abs(frac(impl[0]) - qf) > Fraction(1, 10**18) or abs(frac(impl[1]) - qb) > Fraction(2, 10**9)
                or abs(frac(impl[2]) - qe2) > Fraction(5, 10**16)):
            gdisagree(ctx, "Ellipsoid.f/b/e2 (Rat model)", case, [float(qf), float(qb), float(qe2)], list(impl[:3]))
        # the model's exact values are the closed forms (also proved: `ellipsoid_params`, `sphere_f_zero`)
        if (qf, qb, qe2) != (f_x, b_x, e2_x):
            gdisagree(ctx, "closed forms of f/b/e2 (Rat model)", case, [float(qf), float(qb), float(qe2)], [float(f_x), float(b_x), float(e2_x)])
        # oracle: the defining relations, directly on the real object (exact arithmetic on its doubles)
        f, b, e2, eps = (frac(v) for v in impl)
        if abs(f - f_x) > Fraction(1, 10**18):
            gviolate(ctx, "params:f=1/f_inv", f"{name}: f = {impl[0]!r} but 1/f_inv = {float(f_x)!r}", pcase)
        if abs(b - b_x) > Fraction(2, 10**9) or abs(b - a * (1 - f)) > Fraction(2, 10**9):
            gviolate(ctx, "params:b=a(1-f)", f"{name}: b = {E.b!r} but a(1-f) = {float(b_x)!r}", pcase)
        if abs(e2 - e2_x) > Fraction(5, 10**16) or abs(e2 - (2 * f - f * f)) > Fraction(5, 10**16):
            gviolate(ctx, "params:e2=2f-f²", f"{name}: e2 = {E.e2!r} but 2f - f² = {float(e2_x)!r}", pcase)
        if abs(eps - eps_x) > Fraction(5, 10**16):
            gviolate(ctx, "params:eps=e2/(1-e2)", f"{name}: eps = {impl[3]!r} but e2/(1-e2) = {float(eps_x)!r}", pcase)
        if math.isinf(E.f_inv) and not (E.f == 0 and E.e2 == 0 and E.b == E.a):
            gviolate(ctx, "params:sphere", f"{name}: f_inv = inf but f, e2, b = {E.f!r}, {E.e2!r}, {E.b!r}", pcase)
        if not (E.a > 0 and E.f_inv > 1):
            gviolate(ctx, "params:range", f"{name}: a = {E.a!r}, f_inv = {E.f_inv!r}", pcase)


# --------------------------------------------------------------------------------------------------
# points


class Consts:
    """a, f, b, e2 of an ellipsoid from its defining constants (a, 1/f) alone -- what the generator and the oracles use, so
    that a wrong derived parameter of the object under test cannot leak into the inputs or the expectations"""

    def __init__(self, E):
        self.a = float(E.a)
        self.f = 0.0 if math.isinf(E.f_inv) else 1.0 / float(E.f_inv)
        self.b = self.a * (1 - self.f)
        self.e2 = self.f * (2 - self.f)


def gen_point(rng, E):
    """(kind, xyz) — a point given in Cartesian coordinates"""
    E = Consts(E)
    k = rng.random()
    band = rng.random()
    h = rng.uniform(-1e5, 1e5) if band < 0.55 else (rng.uniform(1e5, 5e7) if band < 0.95 else rng.choice([0.0, -1e5, 1e5, 5e7]))
    b = E.b
    if k < 0.07:
        s = rng.choice([-1, 1])
        return "pole", [0.0, 0.0, s * (b + h)]
    if k < 0.17:
        # near the axis: tiny p, both sides of the pole-branch threshold p = a * 1e-16
        kk = rng.random()
        if kk < 0.5:
            p = E.a * 1e-16 * rng.choice([1.0, 1 - 1e-9, 1 + 1e-9, 0.5, 2.0, 1 - 2.3e-16, 1 + 2.3e-16, rng.uniform(0.9, 1.1)])
        else:
            p = 10.0 ** rng.uniform(-12, 3)
        ang = rng.uniform(-PI, PI)
        s = rng.choice([-1, 1])
        return "near-axis", [p * math.cos(ang), p * math.sin(ang), s * (b + h)]
    if k < 0.25:
        lon = gen_lon(rng)
        r = E.a + h
        return "equator", [r * math.cos(lon), r * math.sin(lon), rng.choice([0.0, -0.0])]
    if k < 0.33:
        lat = gen_lat(rng)
        n = E.a / math.sqrt(1 - E.e2 * math.sin(lat) ** 2)
        return "meridian180", [-(n + h) * math.cos(lat) - 0.0, rng.choice([0.0, -0.0]), (n * (1 - E.e2) + h) * math.sin(lat)]
    if k < 0.45:
        lat, lon = gen_lat(rng), gen_lon(rng)
        n = E.a / math.sqrt(1 - E.e2 * math.sin(lat) ** 2)
        r = (n + h) * math.cos(lat)
        return ("south" if lat < 0 else "north-special"), [r * math.cos(lon), r * math.sin(lon), (n * (1 - E.e2) + h) * math.sin(lat)]
    d = unit_dir(rng)
    # geocentric radius such that the height is roughly h
    rad = E.a * (1 - E.f * d[2] ** 2) + h
    return ("south" if d[2] < 0 else "random"), [rad * c for c in d]


def mp_reference(jobs, dps=50):
    """run harness/geo_ref_mp.py under the tooling interpreter (mpmath); jobs are chunked over processes"""
    if not jobs:
        return []
    n = max(1, min(12, len(jobs) // 400))
    chunks = [jobs[i::n] for i in range(n)]
    procs = []
    for ch in chunks:
        p = subprocess.Popen(["python3-vt", str(HERE / "geo_ref_mp.py")], stdin=subprocess.PIPE, stdout=subprocess.PIPE, text=True)
        p.stdin.write(json.dumps({"dps": dps, "jobs": ch}))
        p.stdin.close()
        procs.append(p)
    outs = []
    for p in procs:
        data = p.stdout.read()
        if p.wait(timeout=900) != 0:
            raise common.ToolFailure("mpmath reference failed")
        outs.append(json.loads(data))
    res = [None] * len(jobs)
    for k, o in enumerate(outs):
        for j, r in enumerate(o):
            res[k + j * n] = r
    return res


def check_conversions(ctx: Ctx):
    Position, *_, ellipsoid, T = _imp()
    drv, rng = ctx.driver, ctx.rng
    names = list(ellipsoid._ELLIPSOIDS)
    n_groups = ctx.budget(700, 46000)
    pending = []  # for the mpmath reference
    corpus = []
    run_corpus(ctx, "C05", lambda c: corpus.append(c) if c.get("kind") == "points" and c.get("ellipsoid") in names else None)
    for gi in range(len(corpus) + n_groups):
        if gi < len(corpus):
            ell, shape = corpus[gi]["ellipsoid"], corpus[gi]["shape"]
            E = ellipsoid.get(ell)
            pts = [("corpus", list(map(float, p))) for p in corpus[gi]["xyz"]]
            m = len(pts)
        else:
            ell = rng.choice(names)
            E = ellipsoid.get(ell)
            m = rng.choice([1, 1, 1, 2, 3, 6])
            shape = rng.choice(["1d", "1xk"]) if m == 1 else "nxk"
            pts = [gen_point(rng, E) for _ in range(m)]
        kinds = [k for k, _ in pts]
        xyz = [p for _, p in pts]
        case = {"fn": "trs2llh/llh2trs", "ellipsoid": ell, "shape": shape, "kinds": kinds, "xyz": xyz}
        ctx.case(case, nontrivial=any(k in ("random", "south") for k in kinds))
        for k in kinds:
            ctx.count(f"point:{k}")
        ctx.count(f"conv:shape={shape}")
        ctx.count(f"conv:ell={ell}")
        arr = as_shape(xyz, shape)
        try:
            llh_raw = np.asarray(T.trs2llh(arr.copy(), E), dtype=float)
        except Exception as e:
            gviolate(ctx, f"raises:trs2llh:{type(e).__name__}", f"trs2llh raised {type(e).__name__}: {e}", case)
            continue
        if llh_raw.shape != arr.shape:
            # known to be the lru_cache keyed on bytes only (property C08); values are still compared below
            gviolate(ctx, "shape:trs2llh-result", f"trs2llh of a {arr.shape} array returned shape {llh_raw.shape}", case)
        llh = llh_raw.reshape(-1, 3)
        if llh.shape != (m, 3):
            continue
        try:
            back_raw = np.asarray(T.llh2trs(as_shape(llh.tolist(), shape), E), dtype=float)
        except Exception as e:
            gviolate(ctx, f"raises:llh2trs:{type(e).__name__}", f"llh2trs raised {type(e).__name__}: {e}", case)
            continue
        if back_raw.shape != arr.shape:
            gviolate(ctx, "shape:llh2trs-result", f"llh2trs of a {arr.shape} array returned shape {back_raw.shape}", case)
        back = back_raw.reshape(-1, 3)
        # ---- correspondence with the Float model
        # `_trs2llh` with the branch-selection statements regenerated from the source for this shape (theorem source_branch_selection)
        dim = "1d" if shape == "1d" else "2d"
        ctx.count(f"conv:selection-program={dim}")
        ans = drv.ask([f"c05 f trs2llhsel {dim} {ell} {fline(*p)}" for p in xyz] + [f"c05 f llh2trs {ell} {fline(*g)}" for g in llh.tolist()])
        for i in range(m):
            mlat, mlon, mh = floats(ans[i])
            rad = math.sqrt(sum(c * c for c in xyz[i]))
            htol = 4 * rad * 2.3e-16 + 1e-9
            if not (close(llh[i][0], mlat, ulp=4, abs_=1e-15) and close(llh[i][1], mlon, ulp=4, abs_=1e-15) and abs(llh[i][2] - mh) <= htol):
                gdisagree(ctx, "transformation.trs2llh (Float model)", {**case, "i": i}, [mlat, mlon, mh], llh[i].tolist())
            mx = floats(ans[m + i])
            if not all(close(a_, b_, ulp=4, abs_=rad * 4.5e-16) for a_, b_ in zip(back[i], mx)):
                gdisagree(ctx, "transformation.llh2trs (Float model)", {**case, "i": i}, mx, back[i].tolist())
        # ---- oracle, float part
        K = Consts(E)
        for i in range(m):
            lat, lon, h = llh[i].tolist()
            x, y, z = xyz[i]
            rad = math.sqrt(x * x + y * y + z * z)
            tol = NEAR if abs(h) <= 1e5 else FAR
            err = float(np.linalg.norm(back[i] - np.array(xyz[i])))
            if not err <= tol:
                gviolate(ctx, f"roundtrip:trs->llh->trs:{'near' if abs(h) <= 1e5 else 'far'}", f"{ell}: trs -> llh -> trs moves the point by {err:.3e} m (height {h:.1f} m, kind {kinds[i]})", {**case, "i": i})
            if not (-PI / 2 <= lat <= PI / 2 and -PI <= lon <= PI):
                gviolate(ctx, "ranges:lat-lon", f"{ell}: lat = {lat!r}, lon = {lon!r}", {**case, "i": i})
            if z != 0 and math.copysign(1, lat) != math.copysign(1, z) and lat != 0:
                gviolate(ctx, "sign:latitude-hemisphere", f"{ell}: z = {z!r} but lat = {lat!r}", {**case, "i": i})
            if kinds[i] == "pole" and not (abs(abs(lat) - PI / 2) == 0 and abs(h - (abs(z) - K.b)) <= 1e-9):
                gviolate(ctx, "pole", f"{ell}: on the axis at z = {z!r}: lat = {lat!r}, h = {h!r}, |z| - a(1-f) = {abs(z) - K.b!r}", {**case, "i": i})
            if kinds[i] == "near-axis" and x * x + y * y <= (K.a * 1e-16) ** 2 * (1 - 1e-6) and not (abs(abs(lat) - PI / 2) <= 1e-15 and abs(h - (abs(z) - K.b)) <= 1e-9):
                gviolate(ctx, "pole", f"{ell}: within a*1e-16 of the axis at z = {z!r}: lat = {lat!r}, h = {h!r}, |z| - a(1-f) = {abs(z) - K.b!r}", {**case, "i": i})
            if kinds[i] == "equator" and not (lat == 0 and abs(h - (math.hypot(x, y) - E.a)) <= 4 * math.ulp(rad) + 1e-9):
                gviolate(ctx, "equator", f"{ell}: in the equatorial plane: lat = {lat!r}, h = {h!r}, p - a = {math.hypot(x, y) - E.a!r}", {**case, "i": i})
            if z == 0 and not lat == 0:
                gviolate(ctx, "equator", f"{ell}: z = {z!r} but lat = {lat!r} (theorem lat_sign_every_height: exactly 0)", {**case, "i": i})
            if rad > K.e2 * K.a:
                ctx.count("point:outside-singular-ball(e2*a)")
            if kinds[i] == "meridian180" and not abs(abs(lon) - PI) <= 1e-15:
                gviolate(ctx, "meridian180", f"{ell}: y = {y!r}, x = {x!r} but lon = {lon!r}", {**case, "i": i})
            # mirror image: the southern hemisphere
            ml = np.asarray(T.trs2llh(np.array([x, y, -z]), E), dtype=float).reshape(-1, 3)[0]
            if not (close(ml[0], -lat, ulp=8, abs_=1e-15) and abs(ml[2] - h) <= 4 * math.ulp(rad) + 1e-9 and ml[1] == lon):
                gviolate(ctx, "mirror:z->-z", f"{ell}: trs2llh(x, y, -z) = {ml.tolist()} but trs2llh(x, y, z) = {[lat, lon, h]}", {**case, "i": i})
            if not (all(math.isfinite(v) for v in (lat, lon, h)) and np.isfinite(back[i]).all()):
                # classified here; the reference computation is for finite results only
                gviolate(ctx, "non-finite:trs2llh" if not all(math.isfinite(v) for v in (lat, lon, h)) else "non-finite:llh2trs",
                         f"{ell}: trs2llh({xyz[i]}) = {[lat, lon, h]}, llh2trs of that = {back[i].tolist()} (kind {kinds[i]}; "
                         f"a = {E.a!r}, b = {E.b!r}, e2 = {E.e2!r})", {**case, "i": i})
                continue
            pending.append((ell, kinds[i], xyz[i], [lat, lon, h], {**case, "i": i}))
        # same numbers whatever the shape
        if m == 1:
            for sh in ("1d", "1xk"):
                inp = as_shape(xyz, sh).copy()
                other_raw = np.asarray(T.trs2llh(inp, E), dtype=float)
                if other_raw.shape != inp.shape:
                    gviolate(ctx, "shape:trs2llh-result", f"trs2llh of a {inp.shape} array returned shape {other_raw.shape} (the same point was converted as {shape} before)", {**case, "as": sh})
                back_raw2 = np.asarray(T.llh2trs(other_raw.reshape(inp.shape).copy(), E), dtype=float)
                if back_raw2.shape != inp.shape:
                    gviolate(ctx, "shape:llh2trs-result", f"llh2trs of a {inp.shape} array returned shape {back_raw2.shape}", {**case, "as": sh})
                other = other_raw.reshape(-1, 3)[0]
                if not (close(other[0], llh[0][0], ulp=4, abs_=1e-15) and close(other[1], llh[0][1], ulp=4, abs_=1e-15) and abs(other[2] - llh[0][2]) <= 4 * math.ulp(float(np.linalg.norm(xyz[0]))) + 1e-9):
                    gviolate(ctx, f"shape-consistency:trs2llh:{sh}", f"{ell}: trs2llh gives {other.tolist()} for shape {sh} but {llh[0].tolist()} for {shape}", {**case, "as": sh})
            # convert, write into the result in place, convert an equal-valued fresh position: the closed form again
            for sh in ("1d", "1xk"):
                alias_history(ctx, case, ell, E, sh, "trs", xyz[0])
                alias_history(ctx, case, ell, E, sh, "llh", llh[0].tolist())
        elif rng.random() < 0.1:
            alias_history(ctx, case, ell, E, "nxk", "trs", xyz)
        # the very same coordinates converted on each of the other ellipsoids straight afterwards (same bytes, same
        # shape): every result is that ellipsoid's own closed form -- a conversion must not be answered with what was
        # computed for another ellipsoid of (nearly) the same shape
        if gi % 4 == 0:
            others = [n_ for n_ in names if n_ != ell]
            rng.shuffle(others)
            seq_ = others[: 3] + [ell]
            outs = []
            for n2 in seq_:
                E2 = ellipsoid.get(n2)
                try:
                    l2 = np.asarray(T.trs2llh(arr.copy(), E2), dtype=float).reshape(-1, 3)
                    b2 = np.asarray(T.llh2trs(as_shape(llh.tolist(), shape), E2), dtype=float).reshape(-1, 3)
                    p2 = np.asarray(Position(arr.copy(), "trs", ellipsoid=E2).llh, dtype=float).reshape(-1, 3)
                except Exception as e:
                    gviolate(ctx, f"raises:ellipsoid-sequence:{type(e).__name__}", f"conversion on {n2} after {ell} raised {type(e).__name__}: {e}", {**case, "ellipsoid_sequence": seq_})
                    break
                outs.append((n2, l2, b2, p2))
            ctx.count("conv:same-bytes-on-several-ellipsoids")
            ans2 = drv.ask([f"c05 f trs2llh {n2} {fline(*p)}" for n2, *_ in outs for p in xyz] + [f"c05 f llh2trs {n2} {fline(*g_)}" for n2, *_ in outs for g_ in llh.tolist()])
            for j, (n2, l2, b2, p2) in enumerate(outs):
                for i in range(m):
                    mlat, mlon, mh = floats(ans2[j * m + i])
                    rad = math.sqrt(sum(c * c for c in xyz[i]))
                    htol = 4 * rad * 2.3e-16 + 1e-9
                    for what, got_ in (("trs2llh", l2[i]), ("Position.llh", p2[i])):
                        if not (close(got_[0], mlat, ulp=4, abs_=1e-15) and close(got_[1], mlon, ulp=4, abs_=1e-15) and abs(got_[2] - mh) <= htol):
                            if abs(got_[0] - mlat) * rad > 1e-6 or abs(got_[2] - mh) > 1e-6:
                                gviolate(ctx, f"ellipsoid-sequence:{what}", f"{what} of the same coordinates on {n2} (after {[x for x, *_ in outs[:j]] + [ell]}) is {got_.tolist()}, "
                                         f"not that ellipsoid's value {[mlat, mlon, mh]}", {**case, "i": i, "ellipsoid_sequence": seq_, "on": n2})
                            else:
                                gdisagree(ctx, f"{what} on a second ellipsoid (Float model)", {**case, "i": i, "on": n2}, [mlat, mlon, mh], got_.tolist())
                    mx = floats(ans2[len(outs) * m + j * m + i])
                    if not all(close(a_, b_, ulp=4, abs_=rad * 4.5e-16) for a_, b_ in zip(b2[i], mx)):
                        if float(np.linalg.norm(b2[i] - np.array(mx))) > 1e-6:
                            gviolate(ctx, "ellipsoid-sequence:llh2trs", f"llh2trs of the same coordinates on {n2} (after {[x for x, *_ in outs[:j]] + [ell]}) is {b2[i].tolist()}, "
                                     f"not that ellipsoid's value {mx}", {**case, "i": i, "ellipsoid_sequence": seq_, "on": n2})
                        else:
                            gdisagree(ctx, "llh2trs on a second ellipsoid (Float model)", {**case, "i": i, "on": n2}, mx, b2[i].tolist())
        # the other direction from generated geodetic coordinates
        g = [[gen_lat(rng), gen_lon(rng), rng.choice([rng.uniform(-1e5, 1e5), rng.uniform(1e5, 5e7), 0.0])] for _ in range(m)]
        case2 = {"fn": "llh2trs/trs2llh", "ellipsoid": ell, "shape": shape, "llh": g}
        ctx.case(case2, nontrivial=True)
        try:
            x2 = np.asarray(T.llh2trs(as_shape(g, shape), E), dtype=float).reshape(-1, 3)
            g2 = np.asarray(T.trs2llh(as_shape(x2.tolist(), shape), E), dtype=float).reshape(-1, 3)
        except Exception as e:
            gviolate(ctx, f"raises:llh2trs:{type(e).__name__}", f"llh2trs/trs2llh raised {type(e).__name__}: {e}", case2)
            continue
        ans = drv.ask([f"c05 f llh2trs {ell} {fline(*q)}" for q in g])
        for i in range(m):
            mx = floats(ans[i])
            rad = float(np.linalg.norm(x2[i]))
            if not all(close(a_, b_, ulp=4, abs_=rad * 4.5e-16) for a_, b_ in zip(x2[i], mx)):
                gdisagree(ctx, "transformation.llh2trs (Float model)", {**case2, "i": i}, mx, x2[i].tolist())
            lat, lon, h = g[i]
            tol = NEAR if abs(h) <= 1e5 else FAR
            R = E.a + abs(h)
            dlon = abs((g2[i][1] - lon + PI) % (2 * PI) - PI) * R * math.cos(lat)
            if abs(abs(lat) - PI / 2) < 1e-9:
                dlon = 0.0  # the longitude is not defined at the poles
            err = math.sqrt(((g2[i][0] - lat) * R) ** 2 + dlon ** 2 + (g2[i][2] - h) ** 2)
            if not err <= tol:
                gviolate(ctx, f"roundtrip:llh->trs->llh:{'near' if abs(h) <= 1e5 else 'far'}", f"{ell}: llh -> trs -> llh moves the point by {err:.3e} m (lat {lat!r}, h {h:.1f})", {**case2, "i": i})
    measure_accuracy(ctx, pending)


def alias_history(ctx, case, ell, E, sh, system, rows):
    """history: convert, write into the converted result in place, convert an equal-valued fresh input —
    the second conversion is the closed form again (function level and Position level, both directions)"""
    Position, *_, ellipsoid, T = _imp()
    drv = ctx.driver
    rows = [rows] if not isinstance(rows[0], (list, tuple)) else rows
    target = "llh" if system == "trs" else "trs"
    f = T.trs2llh if system == "trs" else T.llh2trs
    c = {**case, "history": f"{system}->{target}: convert, write into the result, convert an equal-valued fresh input", "as": sh, "input": rows}
    ctx.count(f"alias-history:{system}->{target}:{sh}")
    mod = [floats(a) for a in drv.ask([f"c05 f {'trs2llh' if system == 'trs' else 'llh2trs'} {ell} {fline(*r)}" for r in rows])]

    def is_closed_form(vals):
        vals = np.asarray(vals, dtype=float).reshape(-1, 3)
        for v, mrow, r in zip(vals, mod, rows):
            rad = math.sqrt(sum(x * x for x in (r if system == "trs" else v)))
            if system == "trs":
                ok = close(v[0], mrow[0], ulp=4, abs_=1e-15) and close(v[1], mrow[1], ulp=4, abs_=1e-15) and abs(v[2] - mrow[2]) <= 4 * math.ulp(rad) + 1e-9
            else:
                ok = all(close(a_, b_, ulp=4, abs_=rad * 4.5e-16) for a_, b_ in zip(v, mrow))
            if not ok:
                return False
        return True

    try:
        # --- the converter functions
        a = as_shape(rows, sh)
        r1 = f(a.copy(), E)
        snap = np.array(r1, dtype=float, copy=True)
        try:
            r1[...] = np.asarray(r1) + 1031.0
        except ValueError:
            pass  # a read-only result cannot be written into: nothing to share
        r2 = np.asarray(f(a.copy(), E), dtype=float)
        if not np.array_equal(r2, snap) or not is_closed_form(r2):
            gviolate(ctx, f"conversion-result-aliases-cache:{f.__name__}", f"{ell}: after writing +1031 into the result of {f.__name__}({sh}), converting an equal input again gives {r2.tolist()} instead of {snap.tolist()}", c)
        # --- Position objects
        p = Position(a.copy(), system, ellipsoid=E)
        x = getattr(p, target)
        snap_x = np.array(x, dtype=float, copy=True)
        try:
            x[...] = np.asarray(x, dtype=float) + 1031.0
        except ValueError:
            pass
        q = Position(a.copy(), system, ellipsoid=E)
        y = np.asarray(getattr(q, target), dtype=float)
        if not np.array_equal(y, snap_x) or not is_closed_form(y):
            gviolate(ctx, f"conversion-result-aliases-cache:Position.{target}", f"{ell}: after writing +1031 into pos.{target} ({sh}), an equal-valued fresh position converts to {y.tolist()} instead of {snap_x.tolist()}", c)
        if not np.array_equal(np.asarray(p, dtype=float), a) or not np.array_equal(np.asarray(q, dtype=float), a):
            gviolate(ctx, "conversion-writes-back-into-source", f"{ell}: writing into pos.{target} changed the position it was converted from", c)
        # the round trip of the fresh position is still the identity
        back = np.asarray(getattr(getattr(q, target), system), dtype=float).reshape(-1, 3)
        ref = np.asarray(rows, dtype=float)
        if system == "trs":
            err = float(np.max(np.linalg.norm(back - ref, axis=1)))
            if not err <= FAR:
                gviolate(ctx, "roundtrip-after-write:Position", f"{ell}: round trip of a fresh position after an in-place write elsewhere is off by {err:.3e} m", c)
    except Exception as e:
        gviolate(ctx, f"raises:alias-history:{type(e).__name__}", f"convert / write / convert raised {type(e).__name__}: {e}", c)


def measure_accuracy(ctx: Ctx, pending):
    """the accuracy figures of the published one-step algorithm, measured against mpmath"""
    *_, ellipsoid, T = _imp()
    limit = ctx.budget(2500, 95000)
    pending = pending[:limit]
    jobs = []
    for ell, kind, xyz, llh, case in pending:
        E = ellipsoid.get(ell)
        jobs.append({"a": common.rs(frac(E.a)), "finv": None if math.isinf(E.f_inv) else common.rs(frac(E.f_inv)),
                     "xyz": [float(v).hex() for v in xyz], "llh": [float(v).hex() for v in llh]})
    refs = mp_reference(jobs)
    worst = {"near_resid": 0.0, "far_resid": 0.0, "algo_near": 0.0, "algo_far": 0.0, "exact_near": 0.0, "exact_far": 0.0,
             "R_near": 0.0, "R_far": 0.0, "R_float_model_minus_mp": 0.0}
    # the model's tangential offset at Float for the same points (p, |z| as the real code forms them)
    toff = ctx.driver.ask([f"c05 f toffset {ell} {fline(math.sqrt(xyz[0] * xyz[0] + xyz[1] * xyz[1]), abs(xyz[2]))}" for ell, kind, xyz, llh, case in pending]) if pending else []
    for k_, ((ell, kind, xyz, llh, case), ref) in enumerate(zip(pending, refs)):
        E = ellipsoid.get(ell)
        ctx.count("mpmath-reference")
        if ref.get("R") is not None:
            # (0) the closed form of `roundtrip_error_closed_form`, evaluated by mpmath on the one-step algorithm in exact arithmetic:
            #     |R| is the round-trip error of the algorithm; the compiled model's R (Float) agrees up to rounding
            R_mp, rt_mp = float(ref["R"]), float(ref["onestep_roundtrip"])
            rad_ = math.sqrt(sum(c * c for c in xyz))
            near_ = abs(float(ref["exact"][2])) <= 1e5
            ctx.count("tangential-offset")
            K_ = Consts(E)
            q_ = math.sqrt(1 - K_.e2)
            A_ = math.sqrt((q_ * math.hypot(xyz[0], xyz[1]) / K_.a) ** 2 + (xyz[2] / K_.a) ** 2)
            if near_ or abs(float(ref["exact"][2])) <= 1e5 + 1e-3:
                # the hypothesis of the proved bound (theorems near_surface_accuracy / near_of_height): |A - q| <= 0.0162
                ctx.count("tangential-offset:near:" + ("inside-proved-box" if abs(A_ - q_) <= 0.0162 else "OUTSIDE-proved-box"))
                if abs(A_ - q_) > 0.0162:
                    gdisagree(ctx, "near_of_height: a point within 100 km has |A - q| <= 0.0162", case, 0.0162, abs(A_ - q_))
            else:
                # the hypothesis of the proved far bound (theorems far_field_accuracy / A_range_of_height): q <= A <= 8.86
                ok_ = q_ <= A_ <= 8.86
                ctx.count("tangential-offset:far:" + ("inside-proved-range" if ok_ else "OUTSIDE-proved-range"))
                if not ok_:
                    gdisagree(ctx, "A_range_of_height: a point with 100 km < h <= 50 000 km has q <= A <= 8.86", case, [q_, 8.86], A_)
            worst["R_near" if near_ else "R_far"] = max(worst["R_near" if near_ else "R_far"], abs(R_mp))
            if not abs(abs(R_mp) - rt_mp) <= 1e-18 + 1e-12 * rt_mp:
                gdisagree(ctx, "closed form R of the round-trip error (theorem roundtrip_error_closed_form) vs mpmath round trip", case, abs(R_mp), rt_mp)
            if not abs(R_mp) <= (NEAR if near_ else FAR):
                gviolate(ctx, f"algorithm-roundtrip:{'near' if near_ else 'far'}", f"{ell}: the one-step algorithm in exact arithmetic has round-trip error |R| = {abs(R_mp):.3e} m at {xyz} (kind {kind})", case)
            R_f = floats(toff[k_])[0]
            worst["R_float_model_minus_mp"] = max(worst["R_float_model_minus_mp"], abs(R_f - R_mp) / rad_)
            if not abs(R_f - R_mp) <= 64 * 2.3e-16 * rad_:
                gdisagree(ctx, "tangentialOffsetOf (Float model) vs mpmath", case, R_f, R_mp)
        lat_e, lon_e, h_e = (float(v) for v in ref["exact"])
        lat_1, h_1 = (float(v) for v in ref["onestep"])
        resid = float(ref["resid"])
        h = llh[2]
        near = abs(h_e) <= 1e5
        R = E.a + abs(h_e)
        # (i) the normal through (lat, lon) at distance h reproduces the input (exact llh2trs of the returned triple)
        tol = NEAR if near else FAR
        worst["near_resid" if near else "far_resid"] = max(worst["near_resid" if near else "far_resid"], resid)
        if not resid <= tol:
            gviolate(ctx, f"normal-through-point:{'near' if near else 'far'}", f"{ell}: the point at (lat, lon, h) = {llh} is {resid:.3e} m from the input {xyz} (height {h_e:.1f} m, kind {kind}); allowed {tol:g}", case)
        # (ii) distance to the exact geodetic coordinates
        d_exact = math.sqrt(((llh[0] - lat_e) * R) ** 2 + (llh[2] - h_e) ** 2)
        worst["exact_near" if near else "exact_far"] = max(worst["exact_near" if near else "exact_far"], d_exact)
        if not d_exact <= tol:
            gviolate(ctx, f"accuracy-vs-exact:{'near' if near else 'far'}", f"{ell}: (lat, h) is {d_exact:.3e} m from the exact geodetic coordinates (height {h_e:.1f} m, kind {kind}); allowed {tol:g}", case)
        # (iii) equal to the algorithm's exact-arithmetic result to 1e-8 m
        d_algo = math.sqrt(((llh[0] - lat_1) * R) ** 2 + (llh[2] - h_1) ** 2)
        worst["algo_near" if near else "algo_far"] = max(worst["algo_near" if near else "algo_far"], d_algo)
        rad = math.sqrt(sum(c * c for c in xyz))
        if not d_algo <= ALGO:
            key = "algorithm-exact-arithmetic:1e-8" + ("" if rad <= 2.0e7 else ":beyond-double-resolution")
            gviolate(ctx, key, f"{ell}: the doubles differ from the one-step algorithm in exact arithmetic by {d_algo:.3e} m at geocentric distance {rad:.4e} m (one ulp there is {math.ulp(rad):.2e} m)", case)
    ctx.extra["measured_accuracy_m"] = {k: float(f"{v:.3e}") for k, v in worst.items()}
    ctx.extra["measured_accuracy_note"] = ("max over the sampled points against mpmath (50 digits): *_resid = |exact llh2trs(returned llh) - input|, "
                                           "exact_* = distance to the exact geodetic coordinates, algo_* = distance to the one-step "
                                           "algorithm evaluated in exact arithmetic; near = |h| <= 100 km, far = up to 50 000 km; R_* = |tangential offset R| of "
                                           "the one-step algorithm in exact arithmetic (= its round-trip error, theorem roundtrip_error_closed_form); "
                                           "R_float_model_minus_mp = max |R(Float model) - R(mpmath)| / geocentric distance")


# --------------------------------------------------------------------------------------------------
# ellipsoid attribute flow

OPS = ["convert", "sliceRow", "fancy", "subset", "addDelta", "deepcopy", "posOf", "emptyFrom", "insert", "retag", "poke"]
CTOR_OPS = {"convert", "sliceRow", "subset", "addDelta", "deepcopy", "posOf", "emptyFrom", "insert"}


def make_obj(rng, cls, E, n):
    Position, PositionDelta, PosVel, PosVelDelta, *_ = _imp()
    if cls == "position":
        rows = [[x * rng.uniform(6.3e6, 7e6) for x in unit_dir(rng)] for _ in range(n)]
        return Position(np.array(rows), "trs", ellipsoid=E)
    rows = []
    for _ in range(n):
        r = np.array(unit_dir(rng)) * rng.uniform(7e6, 3e7)
        t = np.cross(r, unit_dir(rng))
        t = t / np.linalg.norm(t) * math.sqrt(3.986004418e14 / np.linalg.norm(r)) * rng.uniform(0.9, 1.1)
        rows.append(list(r) + list(t))
    return PosVel(np.array(rows), "trs", ellipsoid=E)


def apply_op(rng, op, obj, cls, force=None):
    """returns (result, variant) — the real operation for one machine op (`force`: the variant of a stored replay)"""
    Position, PositionDelta, PosVel, PosVelDelta, PositionArray, PosVelArray, ellipsoid, T = _imp()
    two_d = obj.ndim == 2

    def pick(options):
        return force if force in options else rng.choice(options)

    if op == "convert":
        if cls == "position":
            target = "llh" if obj.system == "trs" else "trs"
        else:
            target = "kepler" if obj.system == "trs" else "trs"
        return getattr(obj, target), f"to:{target}"
    if op == "sliceRow":
        if not two_d or len(obj) < 2:
            return obj.view(), "view(1d)"
        v = pick(["p[a:b]", "p[a:b]", "p[1:]", "p[i]", "p[np.int_]"])
        if v == "p[a:b]":
            return obj[0:len(obj)], v
        if v == "p[1:]":
            return obj[1:], v
        return (obj[np.int_(0)] if v == "p[np.int_]" else obj[0]), v
    if op == "fancy":
        v = pick(["view", "copy", "copy.copy", "list", "mask"])
        if v == "copy":
            return obj.copy(), v
        if v == "copy.copy":
            return copy.copy(obj), v
        if v == "list" and two_d:
            return obj[list(range(len(obj)))], v
        if v == "mask" and two_d:
            return obj[np.ones(len(obj), dtype=bool)], v
        return obj.view(), "view"
    if op == "subset":
        if not two_d:
            return obj.subset(Ellipsis, {}), "subset(...)"
        v = pick(["subset(list)", "subset(mask)", "subset(slice)"])
        idx = {"subset(list)": list(range(len(obj))), "subset(mask)": np.ones(len(obj), dtype=bool), "subset(slice)": slice(None)}[v]
        return obj.subset(idx, {}), v
    if op == "addDelta":
        D = PositionDelta if cls == "position" else PosVelDelta
        P = Position if cls == "position" else PosVel
        forms = ["p+d", "p-d", "d+p", "d-p", "p+=d", "p-=d"]
        if force and "@" in force:
            form, ref_name = force.split("@")
        else:
            form = rng.choice(forms + ["p+d", "d+p"])
            # the difference refers to a position of its own, on an ellipsoid drawn independently ("self": the usual `ref_pos=obj`)
            ref_name = rng.choice(list(ellipsoid._ELLIPSOIDS) + ["self"])
        if ref_name == "self":
            ref = obj
        else:
            ref = P(np.asarray(obj, dtype=float) + 100.0, obj.system, ellipsoid=ellipsoid.get(ref_name))
        delta = D(np.zeros(obj.shape), obj.system, ref_pos=ref)
        v = f"{form}@{ref_name}"
        if form == "p+d":
            return obj + delta, v
        if form == "p-d":
            return obj - delta, v
        if form == "d+p":
            return delta + obj, v
        if form == "d-p":
            return delta - obj, v
        if form == "p+=d":
            x = obj
            x += delta
            return x, v
        x = obj
        x -= delta
        return x, v
    if op in ("retag", "poke"):
        # first a conversion is evaluated (and cached by the object), then the object is changed in place
        try:
            if cls == "position":
                getattr(obj, "llh" if obj.system == "trs" else "trs")
            else:
                getattr(obj, "kepler" if obj.system == "trs" else "trs")
        except Exception:  # noqa: BLE001
            pass
        if op == "retag":
            name = force.split("@")[1] if (force and force.startswith("retag@")) else rng.choice(list(ellipsoid._ELLIPSOIDS))
            obj.ellipsoid = ellipsoid.get(name)
            return obj, f"retag@{name}"
        if obj.system != "trs" or np.isnan(np.asarray(obj, dtype=float)).any():
            return obj.view(), "view"
        obj[...] = np.asarray(obj, dtype=float) + 7.0
        return obj, "poke"
    if op == "deepcopy":
        return copy.deepcopy(obj), "deepcopy"
    if op == "posOf":
        return obj.pos, "pos"
    if op == "emptyFrom":
        return type(obj).empty_from(obj), "empty_from"
    if op == "insert":
        if not two_d:
            return obj.view(), "view(1d)"
        import contextlib
        import io

        with contextlib.redirect_stdout(io.StringIO()):
            return type(obj).insert(obj, 0, obj[0:1], {}), "insert"
    raise AssertionError(op)


def machine_op(op, variant, ctor_kinds=()):
    """the machine operation that stands for what was really done"""
    if variant in ("view(1d)", "view"):
        return "fancy"
    # list / boolean-mask indices are rebuilt by the constructor call of __getitem__ when its isinstance guard admits
    # them (regenerated table), otherwise they come out of __array_finalize__
    if variant == "list" and ("*" in ctor_kinds or "list" in ctor_kinds):
        return "sliceRow"
    if variant == "mask" and ("*" in ctor_kinds or "np.ndarray" in ctor_kinds):
        return "sliceRow"
    return op


def run_sequence(ctx, rng, cls0, ell, ops, ctor_kinds, forced=None, nrows=None, first_row=None):
    """one operation sequence on a real object: oracle at every step, then the machine's prediction"""
    Position, PositionDelta, PosVel, PosVelDelta, PositionArray, PosVelArray, ellipsoid, T = _imp()
    drv = ctx.driver
    E0 = ellipsoid.get(ell)
    nrows = nrows or rng.choice([1, 2, 3])
    obj = make_obj(rng, cls0, E0, nrows)
    if (rng.random() < 0.2) if first_row is None else first_row:
        obj = obj[0] if nrows > 1 else obj
    case = {"fn": "ellipsoid flow", "class": cls0, "ellipsoid": ell, "ops": ops, "rows": nrows, "ndim": int(obj.ndim)}
    forced = list(forced or [])
    cls = cls0
    done, variants, wire, answered = [], [], [], []
    failed = False
    for op in ops:
        if op == "posOf" and (cls == "position" or obj.system != "trs"):
            continue  # `.pos` exists for Cartesian PosVel objects only
        if op == "addDelta" and obj.system != "trs":
            continue  # no llh / kepler difference systems are registered
        if not hasattr(getattr(obj, "ellipsoid", None), "e2") and op == "convert":
            continue  # already reported at the operation that lost the ellipsoid
        try:
            before_vals = np.asarray(obj, dtype=float).copy()
            before_sys = obj.system
            prev_tag = getattr(obj, "ellipsoid", None)
            res, variant = apply_op(rng, op, obj, cls, forced.pop(0) if forced else None)
        except Exception as e:
            gviolate(ctx, f"raises:flow:{op}:{type(e).__name__}", f"{op} on a {cls} created on {ell} raised {type(e).__name__}: {e}", {**case, "done": done, "variants": variants, "op": op})
            failed = True
            break
        mop = machine_op(op, variant, ctor_kinds)
        done.append(mop)
        variants.append(variant)
        if mop == "retag":
            wire.append(f"rt:{variant.split('@')[1]}")
            ctx.count("flow:retag:" + ("other" if getattr(prev_tag, "name", None) != variant.split("@")[1] else "same") + "-ellipsoid")
        elif mop == "poke":
            wire.append("pk")
        elif mop == "addDelta":
            form, ref_name = variant.split("@")
            ref_ell = getattr(getattr(obj, "ellipsoid", None), "name", ell) if ref_name == "self" else ref_name
            wire.append(f"wd:{0 if '-' in form else 1}:{1 if form.startswith('d') else 0}:{ref_ell if ref_ell in ellipsoid._ELLIPSOIDS else ell}")
            ctx.count(f"flow:addDelta:{form}:{'own' if ref_name == 'self' else ('same' if ref_ell == getattr(getattr(obj, 'ellipsoid', None), 'name', None) else 'foreign')}-ellipsoid")
        else:
            wire.append(f"un:{mop}")
        got = getattr(res, "ellipsoid", None)
        got_name = getattr(got, "name", repr(type(got).__name__))
        prev = ellipsoid.get(variant.split("@")[1]) if variant.startswith("retag@") else prev_tag
        # ---- oracle: the property itself — the operation hands on the ellipsoid of the object it was applied to
        if got is not prev and got != prev:
            gviolate(ctx, f"ellipsoid-lost:{cls}:{op}", f"a {cls} on {getattr(prev, 'name', '?')} (created on {ell}) is on {got_name} after {variant}; history {variants}", {**case, "done": list(done), "variants": list(variants)})
        if op == "convert" and cls == "position" and not np.isnan(before_vals).any() and hasattr(prev, "e2"):
            # the conversion of the values the object has now, on the ellipsoid it carries now (created with / assigned last)
            f = T.trs2llh if before_sys == "trs" else T.llh2trs
            want = np.asarray(f(before_vals, prev), dtype=float).reshape(np.asarray(res).shape)
            fresh = bool(np.allclose(np.asarray(res, dtype=float), want, rtol=0, atol=1e-9, equal_nan=True))
            answered.append(prev.name if fresh else "?")
            if not fresh:
                gviolate(ctx, "convert-evaluated-on-other-ellipsoid", f"conversion {variant} of a position (created on {ell}, now on {prev.name}) after {variants[:-1]} is not the conversion of its current values on {prev.name} (off by {float(np.nanmax(np.abs(np.asarray(res) - want))):.3e})", {**case, "done": list(done), "variants": list(variants)})
        elif op == "convert":
            answered.append(None)
        if op == "posOf":
            cls = "position"
        obj = res
        if not hasattr(obj, "system"):
            break
    if not done:
        return
    ctx.case({**case, "done": done, "variants": variants}, nontrivial=any(o in CTOR_OPS for o in done))
    for o in done:
        ctx.count(f"flow:{o}")
    ctx.count(f"flow:len={len(done)}")
    if failed:
        return
    # ---- correspondence: the machine over the regenerated table predicts the tag of the real object
    ans = drv.ask1(f"c05 hflow {cls0} {ell} {','.join(wire)}")
    toks = ans.split()
    got = getattr(obj, "ellipsoid", None)
    got_name = got.name if hasattr(got, "name") else "?"
    impl = f"{cls} {got_name}"
    if " ".join(toks[:2]) != impl:
        gdisagree(ctx, "ellipsoid flow machine over the regenerated constructor-call table", {**case, "done": done, "variants": variants}, ans, impl)
    # the conversions as the model answers them (cache included) against what the real conversions were evaluated on
    model_ans = toks[2].split(",") if len(toks) > 2 and toks[2] else []
    if len(model_ans) == len(answered) and any(a_ is not None and a_ != m_ for a_, m_ in zip(answered, model_ans)):
        gdisagree(ctx, "conversions answered on (hanswered, cache-aware) vs the real conversions", {**case, "done": done, "variants": variants}, model_ans, answered)


def check_flow(ctx: Ctx):
    Position, PositionDelta, PosVel, PosVelDelta, PositionArray, PosVelArray, ellipsoid, T = _imp()
    drv, rng = ctx.driver, ctx.rng
    names = list(ellipsoid._ELLIPSOIDS)
    n = ctx.budget(400, 24000)
    ctor_kinds = tuple(drv.ask1("c05 getitemkinds").split(","))
    # every single operation on every ellipsoid first (the boundary set), then random sequences
    seqs = []
    run_corpus(ctx, "C05", lambda c: seqs.append((c["class"], c["ellipsoid"], list(c["ops"]))) if c.get("kind") == "flow" and c.get("ellipsoid") in names else None)
    seqs += [(cls, ell, [op]) for cls in ("position", "posvel") for ell in names for op in OPS if not (op == "posOf" and cls == "position")]
    # convert / re-tag or write / convert again, on every ellipsoid
    seqs += [(cls, ell, ops_) for cls in ("position", "posvel") for ell in names for ops_ in (["retag", "convert"], ["poke", "convert"], ["convert", "retag", "convert"])]
    for _ in range(n):
        cls = rng.choice(["position", "posvel"])
        ops = [rng.choice(OPS) for _ in range(rng.randint(1, 6))]
        if cls == "position":
            ops = [o for o in ops if o != "posOf"] or ["convert"]
        seqs.append((cls, rng.choice(names), ops))
    for cls0, ell, ops in seqs:
        run_sequence(ctx, rng, cls0, ell, ops, ctor_kinds)
    # end to end: a round trip on a non-default ellipsoid
    for ell in names:
        E0 = ellipsoid.get(ell)
        x = np.array([[3.0e6, 4.0e6, 3.9e6], [-2.1e6, 1.0e6, -5.9e6]])
        case = {"fn": "Position round trip", "ellipsoid": ell, "xyz": x.tolist()}
        ctx.case(case)
        try:
            p = Position(x, "trs", ellipsoid=E0)
            back = np.asarray(p.llh.trs, dtype=float)
            err = float(np.max(np.linalg.norm(back - x, axis=1)))
            if not err <= NEAR:
                gviolate(ctx, "roundtrip:Position.llh.trs", f"Position(x, 'trs', ellipsoid={ell}).llh.trs is {err:.3e} m away from x", case)
            q = Position(np.asarray(T.trs2llh(x, E0)), "llh", ellipsoid=E0)
            err = float(np.max(np.linalg.norm(np.asarray(q.trs) - x, axis=1)))
            if not err <= NEAR:
                gviolate(ctx, "roundtrip:Position(llh).trs", f"Position(trs2llh(x, {ell}), 'llh', ellipsoid={ell}).trs is {err:.3e} m away from x", case)
        except Exception as e:
            gviolate(ctx, f"raises:roundtrip:{type(e).__name__}", f"round trip raised {e}", case)


# --------------------------------------------------------------------------------------------------
# arithmetic: every operand order, operands and the differences' reference positions on different ellipsoids

ARITH_FORMS = ["pos+delta", "pos-delta", "delta+pos", "delta-pos", "delta+delta", "delta-delta", "pos-pos", "pos+pos",
               "pos+=delta", "pos-=delta"]


def _acls(x):
    Position, PositionDelta, PosVel, PosVelDelta, PositionArray, PosVelArray, ellipsoid, T = _imp()
    from midgard.data._position import PositionDeltaArray, PosVelDeltaArray

    if isinstance(x, PosVelDeltaArray):
        return "posvelDelta"
    if isinstance(x, PositionDeltaArray):
        return "posDelta"
    if isinstance(x, PosVelArray):
        return "posvel"
    if isinstance(x, PositionArray):
        return "position"
    return None


def _wire_operand(x):
    c = _acls(x)
    if c in ("position", "posvel"):
        return f"pos:{c}:{getattr(getattr(x, 'ellipsoid', None), 'name', '?')}"
    r = getattr(x, "ref_pos", None)
    return f"delta:{c}:{_acls(r)}:{getattr(getattr(r, 'ellipsoid', None), 'name', '?')}"


def check_arith(ctx: Ctx):
    """`pos ± delta`, `delta ± pos`, `delta ± delta`, `pos − pos`, `pos + pos`, `pos ±= delta` on real objects whose operands
    and reference positions live on independently drawn ellipsoids: oracle (the result that is a position is on the
    ellipsoid of the position operand and converts on it; a difference refers to the left operand's position) and
    correspondence with `binop` over the regenerated operator tables"""
    Position, PositionDelta, PosVel, PosVelDelta, PositionArray, PosVelArray, ellipsoid, T = _imp()
    drv, rng = ctx.driver, ctx.rng
    names = list(ellipsoid._ELLIPSOIDS)
    n = ctx.budget(500, 8000)
    # boundary set first: every form x every (position ellipsoid, reference ellipsoid) pair on Position objects, one shape
    todo = [("position", form, e1, e2, e2, "nxk", True) for form in ARITH_FORMS for e1 in names for e2 in names]
    for _ in range(n):
        todo.append((rng.choice(["position", "position", "posvel"]), rng.choice(ARITH_FORMS), rng.choice(names), rng.choice(names),
                     rng.choice(names), rng.choice(["1d", "1xk", "nxk"]), rng.random() < 0.9))
    for t in todo:
        arith_one(ctx, rng, *t)


def arith_one(ctx, rng, fam, form, e_pos, e_ref, e_ref2, shape, same_system):
    Position, PositionDelta, PosVel, PosVelDelta, PositionArray, PosVelArray, ellipsoid, T = _imp()
    drv = ctx.driver
    for _once in (0,):
        m = 1 if shape != "nxk" else rng.choice([2, 3])
        case = {"fn": "arithmetic", "family": fam, "form": form, "ellipsoid": e_pos, "ref_ellipsoid": e_ref, "ref_ellipsoid2": e_ref2,
                "shape": shape, "same_system": same_system}
        try:
            pos = as_shape_obj(make_obj(rng, fam, ellipsoid.get(e_pos), m), shape)
            other = as_shape_obj(make_obj(rng, fam, ellipsoid.get(e_ref2), m), shape)      # a second position (pos - pos)
            ref1 = as_shape_obj(make_obj(rng, fam, ellipsoid.get(e_ref), m), shape)
            ref2 = as_shape_obj(make_obj(rng, fam, ellipsoid.get(e_ref2), m), shape)
            D = PositionDelta if fam == "position" else PosVelDelta
            dv1 = np.array([[rng.uniform(-50, 50) for _ in range(pos.shape[-1])] for _ in range(m)])
            dv2 = np.array([[rng.uniform(-50, 50) for _ in range(pos.shape[-1])] for _ in range(m)])
            d1 = D(as_shape(dv1.tolist(), shape), "trs", ref_pos=ref1)
            d2 = D(as_shape(dv2.tolist(), shape), "trs", ref_pos=ref2)
            if not same_system:
                # the position operand in another system than the difference: every operator refuses (TypeError)
                pos = pos.llh if fam == "position" else pos.kepler
        except Exception as e:  # noqa: BLE001
            gviolate(ctx, f"raises:arith-setup:{type(e).__name__}", f"building the operands raised {type(e).__name__}: {e}", case)
            continue
        L, op, R = {"pos+delta": (pos, "+", d1), "pos-delta": (pos, "-", d1), "delta+pos": (d1, "+", pos), "delta-pos": (d1, "-", pos),
                    "delta+delta": (d1, "+", d2), "delta-delta": (d1, "-", d2), "pos-pos": (pos, "-", other), "pos+pos": (pos, "+", other),
                    "pos+=delta": (pos, "+=", d1), "pos-=delta": (pos, "-=", d1)}[form]
        if not same_system and form in ("delta+delta", "delta-delta"):
            same_system_eff = True
        elif not same_system and form in ("pos-pos", "pos+pos"):
            same_system_eff = False   # pos is llh/kepler, other is trs
        else:
            same_system_eff = same_system
        case["values"] = {"L": np.asarray(L, dtype=float).tolist(), "R": np.asarray(R, dtype=float).tolist()}
        ctx.case(case, nontrivial=(e_pos != e_ref))
        ctx.count(f"arith:{form}:{'one' if e_pos == e_ref else 'two'}-ellipsoids")
        ctx.count(f"arith:family={fam}")
        if not same_system_eff:
            ctx.count("arith:other-system")
        lv, rv = np.asarray(L, dtype=float).copy(), np.asarray(R, dtype=float).copy()
        le, re_ = getattr(L, "ellipsoid", None), getattr(R, "ellipsoid", None)
        try:
            if op == "+":
                res = L + R
            elif op == "-":
                res = L - R
            elif op == "+=":
                res = L
                res += R
            else:
                res = L
                res -= R
            exc = None
        except Exception as e:  # noqa: BLE001
            res, exc = None, type(e).__name__
        plus = op in ("+", "+=")
        # ---- canonical outcome of the real code
        if exc is not None:
            impl = exc
        elif res is None:
            impl = "None"
        elif _acls(res) is None:
            impl = f"other:{type(res).__name__}"
        else:
            want = lv + rv if plus else lv - rv
            alt = rv + lv if plus else rv - lv
            got = np.asarray(res, dtype=float)
            val = ("L+R" if plus else "L-R") if (got.shape == want.shape and np.array_equal(got, want)) else \
                  (("R+L" if plus else "R-L") if (got.shape == alt.shape and np.array_equal(got, alt)) else "?")
            impl = f"value {_wire_operand(res)} {val}"
        # ---- oracle: the property, on the real objects
        pos_operand = L if _acls(L) in ("position", "posvel") else (R if _acls(R) in ("position", "posvel") else None)
        if exc is not None:
            expected_error = (form == "pos+pos") or not same_system_eff
            if not (expected_error and exc == "TypeError"):
                gviolate(ctx, f"raises:arith:{form}:{exc}", f"{form} (position on {e_pos}, reference position on {e_ref}, shape {shape}) raised {exc}", case)
        elif (form == "pos+pos" or not same_system_eff):
            gviolate(ctx, f"arith:{form}:not-refused", f"{form} with operands in {'different systems' if not same_system_eff else 'the same system'} returned {impl} instead of raising TypeError", case)
        elif _acls(res) in ("position", "posvel"):
            E_want = pos_operand.ellipsoid if pos_operand is not None else None
            if pos_operand is None or getattr(res, "ellipsoid", None) is not E_want:
                gviolate(ctx, f"ellipsoid-lost:arith:{form}", f"{form}: the position operand is on {e_pos}, the difference refers to a position on {e_ref}; "
                         f"the result is on {getattr(getattr(res, 'ellipsoid', None), 'name', '?')} (shape {shape})", case)
            want = lv + rv if plus else lv - rv
            if not np.array_equal(np.asarray(res, dtype=float), want):
                gviolate(ctx, f"arith-values:{form}", f"{form}: values {np.asarray(res).tolist()} are not L {op[0]} R = {want.tolist()}", case)
            elif fam == "position" and res.system == "trs":
                # its geodetic coordinates are those of the same numbers on the ellipsoid of the position operand
                E0 = ellipsoid.get(e_pos)
                try:
                    got_llh = np.asarray(res.llh, dtype=float)
                    want_llh = np.asarray(T.trs2llh(want.copy(), E0), dtype=float).reshape(got_llh.shape)
                    back = np.asarray(res.llh.trs, dtype=float)
                    d_h = float(np.max(np.abs(got_llh[..., 2] - want_llh[..., 2])))
                    d_lat = float(np.max(np.abs(got_llh[..., 0] - want_llh[..., 0]))) * E0.a
                    err = float(np.max(np.abs(back - want)))
                    if not (d_h <= 1e-6 and d_lat <= 1e-6 and err <= FAR):
                        gviolate(ctx, f"convert-evaluated-on-other-ellipsoid:arith:{form}", f"{form}: (result).llh is off by {d_h:.3e} m in height / {d_lat:.3e} m in latitude from "
                                 f"trs2llh on {e_pos}; .llh.trs off by {err:.3e} m (the difference refers to a position on {e_ref})", case)
                except Exception as e:  # noqa: BLE001
                    gviolate(ctx, f"raises:arith-convert:{type(e).__name__}", f"(result of {form}).llh raised {type(e).__name__}: {e}", case)
        elif _acls(res) in ("posDelta", "posvelDelta"):
            left_part = L if _acls(L) in ("position", "posvel") else getattr(L, "ref_pos", None)
            r = getattr(res, "ref_pos", None)
            if r is not left_part or getattr(r, "ellipsoid", None) is not (le if _acls(L) in ("position", "posvel") else getattr(left_part, "ellipsoid", None)):
                gviolate(ctx, f"ellipsoid-lost:arith:{form}", f"{form}: the difference does not refer to the left operand's position on "
                         f"{getattr(getattr(left_part, 'ellipsoid', None), 'name', '?')} but to a {_acls(r)} on {getattr(getattr(r, 'ellipsoid', None), 'name', '?')}", case)
            want = lv + rv if plus else lv - rv
            if not np.array_equal(np.asarray(res, dtype=float), want):
                gviolate(ctx, f"arith-values:{form}", f"{form}: values {np.asarray(res).tolist()} are not L {op[0]} R = {want.tolist()}", case)
        else:
            gviolate(ctx, f"arith:{form}:result-type", f"{form} returned {impl}", case)
        # operands untouched (their own ellipsoids included)
        if not (np.array_equal(np.asarray(L, dtype=float), lv) and np.array_equal(np.asarray(R, dtype=float), rv)
                and getattr(L, "ellipsoid", None) is le and getattr(R, "ellipsoid", None) is re_):
            gviolate(ctx, f"arith-operands-changed:{form}", f"{form} changed one of its operands", case)
        # ---- correspondence: `binop` over the regenerated operator tables
        ans = drv.ask1(f"c05 arith {1 if plus else 0} {1 if same_system_eff else 0} {_wire_operand(L)} {_wire_operand(R)}")
        model, spec = [t.strip() for t in ans.split("|")]
        if model != impl:
            gdisagree(ctx, "binary operators over the regenerated isinstance/factory tables", case, model, impl)
        if spec not in ("spec -", "spec " + model) and same_system_eff:
            gdisagree(ctx, "binop = specBinop (theorem arith_spec) on this input", case, model, spec)


def check_external_sites(ctx: Ctx):
    """the constructor calls outside _position.py (fieldtypes `_prepend_empty` / `_append_empty` / `_extend`, reached through
    Dataset.extend): a position field created on ellipsoid E is still on E afterwards, and fields on two ellipsoids are refused"""
    *_, ellipsoid, T = _imp()
    from midgard.data import dataset

    names = list(ellipsoid._ELLIPSOIDS)
    for ell in names:
        for kind in ("position", "posvel"):
            for shape in ("1d", "1xk", "nxk"):
                delta_empty_from_one(ctx, kind, ell, shape)
    for ell in names:
        E = ellipsoid.get(ell)
        for kind, k in (("position", 3), ("posvel", 6)):
            def mk(n, with_site, e=E):
                d = dataset.Dataset(num_obs=n)
                d.add_float("x", val=np.zeros(n))
                if with_site:
                    getattr(d, "add_" + kind)("site", val=np.ones((n, k)) * 7.0e6, system="trs", ellipsoid=e)
                return d
            for how, (a, b) in (("append_empty", (mk(2, True), mk(3, False))), ("prepend_empty", (mk(3, False), mk(2, True))),
                                ("extend", (mk(2, True), mk(2, True)))):
                case = {"fn": "dataset extend", "kind": kind, "how": how, "ellipsoid": ell}
                ctx.case(case, nontrivial=True)
                ctx.count(f"external-site:{kind}:{how}")
                try:
                    a.extend(b)
                    got = getattr(a.site, "ellipsoid", None)
                except Exception as e:  # noqa: BLE001
                    gviolate(ctx, f"raises:dataset-extend:{how}:{type(e).__name__}", f"Dataset.extend ({how}, {kind} on {ell}) raised {type(e).__name__}: {e}", case)
                    continue
                if got is not E:
                    gviolate(ctx, f"ellipsoid-lost:dataset:{kind}:{how}", f"a {kind} field created on {ell} is on {getattr(got, 'name', '?')} after Dataset.extend ({how})", case)
            other = names[(names.index(ell) + 1) % len(names)]
            case = {"fn": "dataset extend", "kind": kind, "how": "mixed", "ellipsoid": ell, "other": other}
            ctx.case(case, nontrivial=True)
            try:
                a, b = mk(2, True), mk(2, True, ellipsoid.get(other))
                a.extend(b)
                gviolate(ctx, f"ellipsoid-mixed:dataset:{kind}", f"Dataset.extend joined a {kind} field on {ell} with one on {other} (result on {getattr(getattr(a.site, 'ellipsoid', None), 'name', '?')})", case)
            except ValueError:
                ctx.count("external-site:mixed-refused")
            except Exception as e:  # noqa: BLE001
                gviolate(ctx, f"raises:dataset-extend:mixed:{type(e).__name__}", f"Dataset.extend of fields on {ell} and {other} raised {type(e).__name__}: {e}", case)


def delta_empty_from_one(ctx, kind, ell, shape):
    """`PositionDelta.empty_from(d)` / `PosVelDelta.empty_from(d)`: a NaN difference of the same class, shape and system whose
    (NaN) reference position is on the ellipsoid of `d.ref_pos`"""
    Position, PositionDelta, PosVel, PosVelDelta, PositionArray, PosVelArray, ellipsoid, T = _imp()
    E = ellipsoid.get(ell)
    k = 3 if kind == "position" else 6
    P, D = (Position, PositionDelta) if kind == "position" else (PosVel, PosVelDelta)
    case = {"fn": "delta empty_from", "kind": kind, "ellipsoid": ell, "shape": shape}
    ctx.case(case, nontrivial=True)
    ctx.count(f"delta-empty_from:{kind}")
    ref = P(as_shape((np.ones((2, k)) * 7.0e6).tolist(), shape), "trs", ellipsoid=E)
    d = D(as_shape(np.ones((2, k)).tolist(), shape), "trs", ref_pos=ref)
    try:
        e = type(d).empty_from(d)
    except Exception as ex:  # noqa: BLE001
        gviolate(ctx, f"raises:delta-empty_from:{type(ex).__name__}", f"{type(d).__name__}.empty_from(d) (reference position on {ell}, shape {shape}) raised {type(ex).__name__}: {ex}", case)
        return
    r = getattr(e, "ref_pos", None)
    ok = (type(e) is type(d) and e.shape == d.shape and np.isnan(np.asarray(e, dtype=float)).all() and e.system == d.system
          and type(r) is type(ref) and getattr(r, "shape", None) == ref.shape and getattr(r, "system", None) == ref.system)
    if not ok:
        gviolate(ctx, "delta-empty_from:result", f"{type(d).__name__}.empty_from(d) returned a {type(e).__name__} of shape {getattr(e, 'shape', None)} with ref_pos {type(r).__name__}", case)
    elif getattr(r, "ellipsoid", None) is not E:
        gviolate(ctx, f"ellipsoid-lost:delta-empty_from:{kind}", f"the reference position of {type(d).__name__}.empty_from(d) is on {getattr(getattr(r, 'ellipsoid', None), 'name', '?')}, d.ref_pos is on {ell}", case)


WRAPPER_KINDS = ["ndarray", "list", "int-ndarray", "int-list", "position", "position-slice", "posvel.pos"]


def wrapper_one(ctx, rng, fname, kind, carried, explicit, shape):
    """`transformation.trs2llh / llh2trs (arg, ellipsoid=explicit)` with the coordinates given as a plain array, a list or a
    position object created on `carried`: the explicit argument decides (documented signature); without it the carried
    ellipsoid, for plain data GRS80.  Oracle: the result is the conversion of the same numbers (plain ndarray) on the
    deciding ellipsoid.  Correspondence: `resolveEllipsoid` over the rule regenerated from the wrapper's source"""
    Position, PositionDelta, PosVel, PosVelDelta, PositionArray, PosVelArray, ellipsoid, T = _imp()
    names = list(ellipsoid._ELLIPSOIDS)
    f = getattr(T, fname)
    system = "trs" if fname == "trs2llh" else "llh"
    m = 1 if shape != "nxk" else 3
    # mid / high latitudes and some height, so that every pair of different ellipsoids gives different numbers
    llh_rows = [[rng.choice([-1, 1]) * rng.uniform(0.6, 1.45), rng.uniform(-3.0, 3.0), rng.uniform(-5e4, 5e5)] for _ in range(m)]
    if system == "trs":
        rows = np.asarray(T.llh2trs(np.array(llh_rows), ellipsoid.get("GRS80")), dtype=float).reshape(-1, 3).tolist()
    else:
        rows = llh_rows
    plain = as_shape(rows, shape)
    has_carried = kind not in ("ndarray", "list", "int-ndarray", "int-list")
    if kind.startswith("int-"):
        # integer coordinates (whole metres / whole radians): converted like the equal-valued floats
        rows = np.rint(np.asarray(rows, dtype=float)).tolist()
        plain = as_shape(rows, shape)
    case = {"fn": "wrapper ellipsoid", "function": fname, "kind": kind, "carried": carried if has_carried else None, "explicit": explicit,
            "shape": shape, "rows": rows}
    ctx.case(case, nontrivial=has_carried and explicit is not None and explicit != carried)
    ctx.count(f"wrapper:{fname}:{kind}:{'explicit' if explicit else 'no-explicit'}" + (":other-than-carried" if has_carried and explicit and explicit != carried else ""))
    try:
        EA = ellipsoid.get(carried)
        if kind == "ndarray":
            arg = plain.copy()
        elif kind == "list":
            arg = plain.tolist()
        elif kind == "int-ndarray":
            arg = plain.astype(np.int64)
        elif kind == "int-list":
            arg = plain.astype(np.int64).tolist()
        elif kind == "position":
            arg = Position(plain.copy(), system, ellipsoid=EA)
        elif kind == "position-slice":
            big = Position(np.vstack([np.asarray(rows, dtype=float), np.asarray(rows, dtype=float)]), system, ellipsoid=EA)
            arg = big[0:m] if shape != "1d" else big[0]
        else:
            if system != "trs":
                return
            pv = PosVel(np.hstack([np.asarray(rows, dtype=float), np.ones((len(rows), 3))]), "trs", ellipsoid=EA)
            arg = pv.pos if shape != "1d" else pv.pos[0]
        got = np.asarray(f(arg, ellipsoid.get(explicit)) if explicit else f(arg), dtype=float)
    except Exception as e:  # noqa: BLE001
        gviolate(ctx, f"raises:wrapper:{fname}:{type(e).__name__}", f"{fname}({kind} on {carried}, ellipsoid={explicit}) raised {type(e).__name__}: {e}", case)
        return
    decide = explicit if explicit else (carried if has_carried else "GRS80")
    per = {n_: np.asarray(f(np.asarray(arg, dtype=float).copy(), ellipsoid.get(n_)), dtype=float) for n_ in names}
    tol = 1e-9 if system == "llh" else None

    def same(a_, b_):
        if a_.shape != b_.shape:
            return False
        if system == "llh":   # result in metres
            return bool(np.all(np.abs(a_ - b_) <= 1e-9))
        return bool(np.all(np.abs(a_[..., :2] - b_[..., :2]) <= 1e-15) and np.all(np.abs(a_[..., 2] - b_[..., 2]) <= 1e-9))

    on = [n_ for n_ in names if same(got, per[n_])]
    # ---- oracle
    if decide not in on:
        gviolate(ctx, f"wrapper-ellipsoid:{fname}:{'explicit-ignored' if explicit else ('carried-ignored' if has_carried else 'default')}" + (":integer-input" if kind.startswith("int-") else ""),
                 f"{fname}(<{kind}" + (f" on {carried}" if has_carried else "") + f">, ellipsoid={explicit}) is the conversion on {on or '?'}, not on {decide} "
                 f"(max difference to the {decide} result {float(np.max(np.abs(got - per[decide]))) if got.shape == per[decide].shape else float('nan'):.3e})", case)
    # ---- correspondence
    ans = ctx.driver.ask1(f"c05 resolve {fname} {explicit or '-'} {carried if has_carried else '-'}")
    if ans not in on:
        gdisagree(ctx, "resolveEllipsoid over the regenerated wrapper rule", case, ans, on)


def check_wrappers(ctx: Ctx):
    *_, ellipsoid, T = _imp()
    rng = ctx.rng
    names = list(ellipsoid._ELLIPSOIDS)
    # all (carried, explicit) pairs incl. no explicit argument, both functions, position objects; then the plain kinds; then random
    todo = [(fn_, "position", a_, b_, "nxk") for fn_ in ("trs2llh", "llh2trs") for a_ in names for b_ in names + [None]]
    todo += [(fn_, k_, names[0], b_, sh) for fn_ in ("trs2llh", "llh2trs") for k_ in ("ndarray", "list", "int-ndarray", "int-list") for b_ in names + [None] for sh in ("1d", "nxk")]
    for _ in range(ctx.budget(150, 6000)):
        todo.append((rng.choice(["trs2llh", "llh2trs"]), rng.choice(WRAPPER_KINDS), rng.choice(names), rng.choice(names + [None]), rng.choice(["1d", "1xk", "nxk"])))
    for fn_, k_, a_, b_, sh in todo:
        wrapper_one(ctx, rng, fn_, k_, a_, b_, sh)


def as_shape_obj(obj, shape):
    """(n, k) position object → the requested shape (first row / first row as (1, k))"""
    if shape == "1d":
        return obj[0] if obj.ndim == 2 else obj
    if shape == "1xk":
        return obj[0:1]
    return obj


def replay(payload):
    """re-run the oracle on a stored case against $MIDGARD_REPO; exit code 1 when the violation reproduces"""
    import random

    warnings.simplefilter("ignore")
    np.seterr(all="ignore")
    c = payload.get("replay", payload)
    print(json.dumps(c, indent=1, default=str)[:2500])
    print("key:", payload.get("key"), "| what:", payload.get("what"))
    ctx = Ctx("C05", "quick", int(payload.get("seed", 0) or 0))
    rng = random.Random(0)
    *_, ellipsoid, T = _imp()
    fn = c.get("fn")
    if fn == "ellipsoid flow" and c.get("ellipsoid") in ellipsoid._ELLIPSOIDS:
        kinds = tuple(ctx.driver.ask1("c05 getitemkinds").split(","))
        # the stored machine ops are re-applied with the stored variants on a fresh object of the same class / ellipsoid
        ops = [("fancy" if v in ("view", "view(1d)", "copy", "copy.copy", "list", "mask") else ("retag" if v.startswith("retag@") else ("poke" if v == "poke" else o))) for o, v in zip(c.get("done", c["ops"]), c.get("variants", []))] or c["ops"]
        run_sequence(ctx, rng, c["class"], c["ellipsoid"], ops, kinds, forced=c.get("variants"), nrows=c.get("rows"), first_row=(c.get("ndim") == 1 and c.get("rows", 1) > 1))
    elif fn == "arithmetic" and c.get("ellipsoid") in ellipsoid._ELLIPSOIDS:
        arith_one(ctx, rng, c["family"], c["form"], c["ellipsoid"], c["ref_ellipsoid"], c["ref_ellipsoid2"], c["shape"], c["same_system"])
    elif fn == "wrapper ellipsoid" and c.get("carried", "GRS80") in list(ellipsoid._ELLIPSOIDS) + [None]:
        wrapper_one(ctx, rng, c["function"], c["kind"], c.get("carried") or "GRS80", c.get("explicit"), c["shape"])
    elif fn == "delta empty_from" and c.get("ellipsoid") in ellipsoid._ELLIPSOIDS:
        delta_empty_from_one(ctx, c["kind"], c["ellipsoid"], c["shape"])
    elif fn in ("ellipsoid parameters", "ellipsoid table"):
        check_table(ctx)
    elif fn == "trs2llh/llh2trs" and c.get("ellipsoid") in ellipsoid._ELLIPSOIDS:
        E = ellipsoid.get(c["ellipsoid"])
        arr = as_shape(c["xyz"], c["shape"])
        llh = np.asarray(T.trs2llh(arr.copy(), E), dtype=float)
        back = np.asarray(T.llh2trs(llh.reshape(arr.shape), E), dtype=float)
        print("trs2llh:", llh.tolist(), "\nback - input:", (back.reshape(-1, 3) - arr.reshape(-1, 3)).tolist())
        pend = [(c["ellipsoid"], k, p, g, c) for k, p, g in zip(c["kinds"], c["xyz"], llh.reshape(-1, 3).tolist())]
        measure_accuracy(ctx, pend)
        print("measured (m):", ctx.extra.get("measured_accuracy_m"))
    else:
        print("no dedicated replay for this kind of case: re-run `VERIF_SEED=%s ./check C05 --tier %s`" % (payload.get("seed", 0), payload.get("tier", "quick")))
        return 0
    known = {k for k, _ in common.load_known("C05")[0]}
    hits = [v for v in ctx.violations if v.key not in known]
    for v in ctx.violations:
        print(("KNOWN-FINDING " if v.key in known else "VIOLATION ") + v.key + ": " + v.what)
    print("verdict:", "violation reproduced" if hits else "no violation on this tree")
    if ctx._driver:
        ctx._driver.close()
    return 1 if hits else 0
