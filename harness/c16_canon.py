"""Canonical form / digests of parser results, deep in-place mutation of results, and snapshots of the
process-wide mutable cells of the loaded midgard modules.  Used by harness/c16.py in-process and by the
fresh-interpreter worker (harness/c16_worker.py) so that both sides canonicalise identically."""
from __future__ import annotations

import collections
import datetime as _dt
import hashlib
import json
import math
import pathlib
import re
import sys
import types

ADDR = re.compile(r" at 0x[0-9a-fA-F]+")
MAX_DEPTH = 14


def canon(o, depth=0, seen=None):
    import numpy as np

    if seen is None:
        seen = set()
    if o is None or isinstance(o, (bool, int, str)):
        return o
    if isinstance(o, float):
        return ["f", "nan" if math.isnan(o) else repr(o)]
    if isinstance(o, complex):
        return ["c", repr(o)]
    if isinstance(o, bytes):
        return ["b", o.hex()]
    if depth > MAX_DEPTH:
        return ["deep", type(o).__name__]
    if isinstance(o, np.generic):
        return ["np", o.dtype.str, canon(o.item(), depth + 1, seen)]
    if isinstance(o, (_dt.datetime, _dt.date, _dt.time)):
        return ["dt", o.isoformat()]
    if isinstance(o, _dt.timedelta):
        return ["td", o.days, o.seconds, o.microseconds]
    if isinstance(o, pathlib.PurePath):
        return ["path", str(o)]
    if isinstance(o, (types.FunctionType, types.BuiltinFunctionType, types.MethodType, type)):
        return ["fn", getattr(o, "__module__", "") or "", getattr(o, "__qualname__", repr(type(o)))]
    oid = id(o)
    if oid in seen:
        return ["cycle", type(o).__name__]
    seen = seen | {oid}
    if isinstance(o, np.ndarray):
        extra = []
        for a in ("fmt", "scale", "system"):
            try:
                if type(o) is not np.ndarray and hasattr(o, a):
                    extra.append([a, str(getattr(o, a))])
            except Exception:
                pass
        base = np.asarray(o)
        if base.dtype == object:
            body = [canon(x, depth + 1, seen) for x in base.ravel().tolist()]
        elif base.dtype.names:
            body = [[n, canon(base[n], depth + 1, seen)] for n in base.dtype.names]
        elif base.dtype.kind == "f":
            body = ["nan" if (isinstance(x, float) and math.isnan(x)) else repr(x) for x in base.ravel().tolist()]
        else:
            body = [x if isinstance(x, (int, str, bool)) else repr(x) for x in base.ravel().tolist()]
        return ["nd", type(o).__name__, base.dtype.str, list(base.shape), extra, body]
    if isinstance(o, dict):
        items = [[canon(k, depth + 1, seen), canon(v, depth + 1, seen)] for k, v in o.items()]
        items.sort(key=lambda kv: json.dumps(kv[0], sort_keys=True, default=str))
        return ["dict", type(o).__name__, items]
    if isinstance(o, (list, tuple, collections.deque)):
        return [type(o).__name__, [canon(x, depth + 1, seen) for x in o]]
    if isinstance(o, (set, frozenset)):
        xs = [canon(x, depth + 1, seen) for x in o]
        xs.sort(key=lambda x: json.dumps(x, sort_keys=True, default=str))
        return ["set", xs]
    try:
        import pandas as pd

        if isinstance(o, pd.DataFrame):
            return ["df", canon(list(o.index), depth + 1, seen), canon(o.to_dict(orient="list"), depth + 1, seen)]
        if isinstance(o, pd.Series):
            return ["series", canon(list(o.index), depth + 1, seen), canon(list(o.values), depth + 1, seen)]
    except Exception:
        pass
    d = getattr(o, "__dict__", None)
    if isinstance(d, dict) and d:
        return ["obj", type(o).__name__, canon({k: v for k, v in d.items() if not k.startswith("__")}, depth + 1, seen)]
    return ["repr", type(o).__name__, ADDR.sub("", repr(o))[:400]]


def digest(o) -> str:
    return hashlib.sha1(json.dumps(canon(o), sort_keys=True, default=str).encode()).hexdigest()[:16]


def result_digests(parser) -> dict:
    """per-key digests of as_dict(), meta and the public attributes parsers expose next to them"""
    out = {}
    d = parser.as_dict()
    for k, v in d.items():
        out["data:" + json.dumps(canon(k), default=str)] = digest(v)
    for k, v in parser.meta.items():
        out["meta:" + json.dumps(canon(k), default=str)] = digest(v)
    for a in ("header", "data_available"):
        if hasattr(parser, a):
            out["attr:" + a] = digest(getattr(parser, a))
    return out


def run_parse(parser_name: str, path: str, kwargs=None):
    """construct + parse through the library's front door; returns (parser or None, digests)"""
    import contextlib
    import io
    import warnings

    from midgard import parsers

    with warnings.catch_warnings():
        warnings.simplefilter("ignore")
        with contextlib.redirect_stdout(io.StringIO()), contextlib.redirect_stderr(io.StringIO()):
            try:
                p = parsers.parse_file(parser_name, path, **(kwargs or {}))
                return p, result_digests(p)
            except (Exception, SystemExit) as e:  # the error class is the result
                return None, {"error": type(e).__name__}


# -------------------------------------------------------------------------------------------------
# deep in-place mutation of a result (what a caller may do with what it was handed)


def mutate(o, depth=0, seen=None) -> int:
    """change every mutable object reachable from `o` in place; returns the number of objects changed"""
    import numpy as np

    if seen is None:
        seen = set()
    if depth > MAX_DEPTH or id(o) in seen:
        return 0
    seen.add(id(o))
    n = 0
    if isinstance(o, np.ndarray):
        if o.dtype == object:
            for x in o.ravel().tolist():
                n += mutate(x, depth + 1, seen)
        try:
            if o.flags.writeable and o.size:
                if o.dtype.kind in "fc":
                    o[...] = -12345.678
                elif o.dtype.kind in "iu":
                    o[...] = 77
                elif o.dtype.kind == "b":
                    o[...] = ~o
                elif o.dtype.kind in "US":
                    o[...] = "#MUT#"
                elif o.dtype.kind == "O":
                    o[...] = None
                elif o.dtype.names:
                    o[...] = np.zeros((), dtype=o.dtype)
                n += 1
        except Exception:
            pass
        return n
    if isinstance(o, dict):
        for v in list(o.values()):
            n += mutate(v, depth + 1, seen)
        try:
            ks = list(o.keys())
            if ks:
                del o[ks[0]]
            o["__verif_mutated__"] = ["x"]
            n += 1
        except Exception:
            pass
        return n
    if isinstance(o, list):
        for v in list(o):
            n += mutate(v, depth + 1, seen)
        try:
            if o:
                o.pop()
            o.append("__verif_mutated__")
            o.reverse()
            n += 1
        except Exception:
            pass
        return n
    if isinstance(o, (set,)):
        o.add("__verif_mutated__")
        return 1
    if isinstance(o, (tuple, frozenset)):
        for v in o:
            n += mutate(v, depth + 1, seen)
        return n
    if isinstance(o, (str, bytes, int, float, bool, type(None), type, types.FunctionType, types.ModuleType)):
        return 0
    try:
        import pandas as pd

        if isinstance(o, pd.DataFrame):
            if len(o.columns):
                o.drop(columns=[o.columns[0]], inplace=True)
            return 1
    except Exception:
        pass
    d = getattr(o, "__dict__", None)
    if isinstance(d, dict):
        for v in list(d.values()):
            n += mutate(v, depth + 1, seen)
    return n


def mutate_result(parser) -> int:
    """mutate what the caller gets from the parser: as_dict() (with and without meta) and .meta"""
    n = 0
    try:
        n += mutate(parser.as_dict())
    except Exception:
        pass
    try:
        n += mutate(parser.as_dict(include_meta=True))
    except Exception:
        pass
    n += mutate(parser.meta)
    for a in ("header",):
        if hasattr(parser, a):
            n += mutate(getattr(parser, a))
    return n


# -------------------------------------------------------------------------------------------------
# snapshot of process-wide mutable cells of loaded midgard modules

CONTAINERS = (dict, list, set, collections.deque, bytearray)


def _fp(v) -> str:
    try:
        body = ADDR.sub("", repr(v))
    except Exception:
        body = "<unrepr>"
    return f"{type(v).__name__}:{len(v) if hasattr(v, '__len__') else '?'}:{hashlib.sha1(body.encode()).hexdigest()[:12]}"


def _func_cells(mod: str, qual: str, fn, out: dict):
    seen = set()
    f = fn
    while f is not None and id(f) not in seen:
        seen.add(id(f))
        if hasattr(f, "cache_info") and callable(getattr(f, "cache_info", None)):
            try:
                out[f"{mod}:{getattr(f, '__name__', qual)}@lru_cache"] = ("lrucache", f"size:{f.cache_info().currsize}")
            except Exception:
                pass
        d = getattr(f, "__dict__", None)
        if isinstance(d, dict):
            for k, v in d.items():
                if isinstance(v, CONTAINERS):
                    out[f"{mod}:{qual}.<func>.{k}"] = ("funcattr", _fp(v))
        for defs in (getattr(f, "__defaults__", None) or ()), tuple((getattr(f, "__kwdefaults__", None) or {}).values()):
            for i, v in enumerate(defs):
                if isinstance(v, CONTAINERS):
                    out[f"{mod}:{qual}(default #{i})"] = ("default", _fp(v))
        f = getattr(f, "__wrapped__", None)


def snapshot_cells(repo: str) -> dict:
    """{cell id: (kind, fingerprint)} for every mutable container hanging off a loaded midgard module, class,
    function object or default argument"""
    out: dict = {}
    for name, m in list(sys.modules.items()):
        if not (name == "midgard" or name.startswith("midgard.")) or m is None:
            continue
        f = getattr(m, "__file__", None) or ""
        if not f.startswith(repo):
            continue
        for k, v in list(vars(m).items()):
            if k.startswith("__"):
                continue
            if isinstance(v, CONTAINERS):
                out[f"{name}:{k}"] = ("module", _fp(v))
            elif isinstance(v, type) and getattr(v, "__module__", None) == name:
                for ck, cv in list(vars(v).items()):
                    if ck.startswith("__") and ck != "__init__":
                        continue
                    if isinstance(cv, CONTAINERS):
                        out[f"{name}:{v.__name__}.{ck}"] = ("class", _fp(cv))
                    else:
                        fn = cv.__func__ if isinstance(cv, (staticmethod, classmethod)) else cv
                        if isinstance(fn, property):
                            fn = fn.fget
                        if callable(fn) and (isinstance(fn, types.FunctionType) or hasattr(fn, "__wrapped__")):
                            _func_cells(name, f"{v.__name__}.{ck}", fn, out)
            elif (isinstance(v, types.FunctionType) or hasattr(v, "__wrapped__")) and getattr(v, "__module__", None) == name:
                _func_cells(name, k, v, out)
    return out
