"""Canonical form / digests of parser results, deep in-place mutation of results, and snapshots of the
process-wide mutable cells of the loaded midgard modules.  Used by harness/c16.py in-process and by the
fresh-interpreter worker (harness/c16_worker.py) so that both sides canonicalise identically."""
from __future__ import annotations

import collections
import contextlib
import datetime as _dt
import io
import hashlib
import json
import math
import pathlib
import re
import sys
import types
import warnings

ADDR = re.compile(r" at 0x[0-9a-fA-F]+")
MAX_DEPTH = 14


def canon(o, depth=0, seen=None):
    import numpy as np

    if seen is None:
        seen = set()
    if o is None or isinstance(o, (bool, int, str)):
        return o
    if isinstance(o, float):
        return ["f", "nan" if math.isnan(o) else repr(o)]
    if isinstance(o, complex):
        return ["c", repr(o)]
    if isinstance(o, bytes):
        return ["b", o.hex()]
    if depth > MAX_DEPTH:
        return ["deep", type(o).__name__]
    if isinstance(o, np.generic):
        return ["np", o.dtype.str, canon(o.item(), depth + 1, seen)]
    if isinstance(o, (_dt.datetime, _dt.date, _dt.time)):
        return ["dt", o.isoformat()]
    if isinstance(o, _dt.timedelta):
        return ["td", o.days, o.seconds, o.microseconds]
    if isinstance(o, pathlib.PurePath):
        return ["path", str(o)]
    if isinstance(o, (types.FunctionType, types.BuiltinFunctionType, types.MethodType, type)):
        return ["fn", getattr(o, "__module__", "") or "", getattr(o, "__qualname__", repr(type(o)))]
    oid = id(o)
    if oid in seen:
        return ["cycle", type(o).__name__]
    seen = seen | {oid}
    if isinstance(o, np.ndarray):
        extra = []
        for a in ("fmt", "scale", "system"):
            try:
                if type(o) is not np.ndarray and hasattr(o, a):
                    extra.append([a, str(getattr(o, a))])
            except Exception:
                pass
        base = np.asarray(o)
        if base.dtype == object:
            body = [canon(x, depth + 1, seen) for x in base.ravel().tolist()]
        elif base.dtype.names:
            body = [[n, canon(base[n], depth + 1, seen)] for n in base.dtype.names]
        elif base.dtype.kind == "f":
            body = ["nan" if (isinstance(x, float) and math.isnan(x)) else repr(x) for x in base.ravel().tolist()]
        else:
            body = [x if isinstance(x, (int, str, bool)) else repr(x) for x in base.ravel().tolist()]
        return ["nd", type(o).__name__, base.dtype.str, list(base.shape), extra, body]
    if isinstance(o, dict):
        items = [[canon(k, depth + 1, seen), canon(v, depth + 1, seen)] for k, v in o.items()]
        items.sort(key=lambda kv: json.dumps(kv[0], sort_keys=True, default=str))
        return ["dict", type(o).__name__, items]
    if isinstance(o, (list, tuple, collections.deque)):
        return [type(o).__name__, [canon(x, depth + 1, seen) for x in o]]
    if isinstance(o, (set, frozenset)):
        xs = [canon(x, depth + 1, seen) for x in o]
        xs.sort(key=lambda x: json.dumps(x, sort_keys=True, default=str))
        return ["set", xs]
    try:
        import pandas as pd

        if isinstance(o, pd.DataFrame):
            return ["df", canon(list(o.index), depth + 1, seen), canon(o.to_dict(orient="list"), depth + 1, seen)]
        if isinstance(o, pd.Series):
            return ["series", canon(list(o.index), depth + 1, seen), canon(list(o.values), depth + 1, seen)]
    except Exception:
        pass
    d = getattr(o, "__dict__", None)
    if isinstance(d, dict) and d:
        return ["obj", type(o).__name__, canon({k: v for k, v in d.items() if not k.startswith("__")}, depth + 1, seen)]
    return ["repr", type(o).__name__, ADDR.sub("", repr(o))[:400]]


def digest(o) -> str:
    return hashlib.sha1(json.dumps(canon(o), sort_keys=True, default=str).encode()).hexdigest()[:16]


def result_digests(parser) -> dict:
    """per-key digests of as_dict(), meta and the public attributes parsers expose next to them"""
    out = {}
    d = parser.as_dict()
    for k, v in d.items():
        out["data:" + json.dumps(canon(k), default=str)] = digest(v)
    for k, v in parser.meta.items():
        out["meta:" + json.dumps(canon(k), default=str)] = digest(v)
    for a in ("header", "data_available"):
        if hasattr(parser, a):
            out["attr:" + a] = digest(getattr(parser, a))
    return out


def kw_of(kw) -> dict:
    """kwargs of a history event: a canonical JSON text ('' = none) or a dict"""
    if not kw:
        return {}
    return dict(kw) if isinstance(kw, dict) else json.loads(kw)


def kw_text(kwargs) -> str:
    return json.dumps(kwargs, sort_keys=True) if kwargs else ""


@contextlib.contextmanager
def quiet():
    with warnings.catch_warnings():
        warnings.simplefilter("ignore")
        with contextlib.redirect_stdout(io.StringIO()), contextlib.redirect_stderr(io.StringIO()):
            yield


def run_parse(parser_name: str, path: str, kwargs=None):
    """construct + parse through the library's front door; returns (parser or None, digests)"""
    from midgard import parsers

    with quiet():
        try:
            p = parsers.parse_file(parser_name, path, **kw_of(kwargs))
            return p, result_digests(p)
        except (Exception, SystemExit) as e:  # the error class is the result
            return None, {"error": type(e).__name__}


def construct(name: str, path: str, kwargs=None):
    """first half of parsers.parse_file: plugins.call(package, name, file_path=…, encoding=…, **parser_args)"""
    from midgard.dev import plugins

    kw = kw_of(kwargs)
    kw.setdefault("encoding", None)
    return plugins.call(package_name="midgard.parsers", plugin_name=name, file_path=path, **kw)


def do_parse(p):
    """second half of parsers.parse_file"""
    if p.data_available:
        p.parse()
    return p


# -------------------------------------------------------------------------------------------------
# histories: one interpreter for the exploration (harness/c16.py), for replays and for the confirmation of a
# failing history in a fresh process (harness/c16_worker.py)
#
#   ["parse_file", name, path, kw]        construct + parse (parsers.parse_file); observed
#   ["c<slot>", name, path, kw]           construct an object and keep it alive in <slot>
#   ["p<slot>", …]                        parse the object in <slot>; observed
#   ["m<slot>", …]                        the caller modifies in place everything it was handed (as_dict(), meta, header)
#   ["o<slot>", …]                        look at the result of <slot> again; observed
#   ["s<slot>"|"r<slot>"|"f<slot>", …]    the three public steps of Parser.parse() one by one: setup_parser(), read_data(),
#                                         postprocess_data(); "f" is observed
#   ["nest", nameA, pathA, kwA, k, nameB, pathB, kwB]
#                                         parse A; when the k-th function of midgard/parsers is entered inside A's parse(),
#                                         B is constructed and parsed completely (what a logger / callback / second thread
#                                         of the caller may do), then A goes on; both observed (B first)
#   ["write", dst, src]                  the file at dst gets the content of src (the same path holds other content later)
# kw is '' or the canonical JSON text of the keyword arguments.


def _parsers_dir() -> str:
    import midgard.parsers as mp

    return str(pathlib.Path(mp.__file__).resolve().parent)


def count_calls(p) -> int:
    """number of function entries in midgard/parsers during p.parse() (p is parsed by this)"""
    pdir = _parsers_dir()
    n = [0]

    def tr(frame, event, arg):
        if event == "call" and frame.f_code.co_filename.startswith(pdir):
            n[0] += 1
        return None

    sys.settrace(tr)
    try:
        do_parse(p)
    finally:
        sys.settrace(None)
    return n[0]


def nested_parse(a, k: int, b_key, box=None):
    """parse `a`; at the k-th function entry in midgard/parsers run a complete parse_file of b_key.
    Returns the digests of B (None when A made fewer than k calls); they are also put into `box` as soon as they
    exist, so that they survive an exception of A"""
    pdir = _parsers_dir()
    n = [0]
    got = [None]

    def tr(frame, event, arg):
        if event == "call" and frame.f_code.co_filename.startswith(pdir):
            n[0] += 1
            if n[0] == k:
                sys.settrace(None)
                got[0] = run_parse(*b_key)[1]
                if box is not None:
                    box.append(got[0])
        return None

    sys.settrace(tr)
    try:
        do_parse(a)
    finally:
        sys.settrace(None)
    return got[0]


def exec_events(events, on_event=None):
    """run a history in this process; returns [(event index, (name, path, kw), digests, what)] for the observed events"""
    objs = {}
    failed = {}
    obs = []

    def key_of(e, off=1):
        return (e[off], e[off + 1], e[off + 2] if len(e) > off + 2 else "")

    with quiet():
        for i, e in enumerate(events):
            op = e[0]
            if op == "parse_file":
                k = key_of(e)
                obs.append((i, k, run_parse(*k)[1], "construct + parse"))
            elif op == "write":
                pathlib.Path(e[1]).parent.mkdir(parents=True, exist_ok=True)
                pathlib.Path(e[1]).write_bytes(pathlib.Path(e[2]).read_bytes())
            elif op == "nest":
                ka, kb, kk = key_of(e, 1), key_of(e, 5), int(e[4])
                box = []
                try:
                    a = construct(*ka)
                    box.append(nested_parse(a, kk, kb, box))
                    da = result_digests(a)
                except (Exception, SystemExit) as err:
                    da = {"error": type(err).__name__}
                db = next((x for x in box if x is not None), None)
                if db is not None:
                    obs.append((i, kb, db, f"parsed completely at function entry {kk} inside the parse of {pathlib.Path(ka[1]).name}"))
                obs.append((i, ka, da, f"parse during which (function entry {kk}) {pathlib.Path(kb[1]).name} was parsed by another object"))
            else:
                slot, k = op[1:], key_of(e)
                try:
                    if op[0] == "c":
                        failed.pop(slot, None)
                        objs[slot] = construct(*k)
                    elif slot in failed:
                        if op[0] in "pf":
                            obs.append((i, k, failed[slot], "object could not be constructed / parsed"))
                    elif slot not in objs:
                        pass
                    elif op[0] == "p":
                        do_parse(objs[slot])
                        obs.append((i, k, result_digests(objs[slot]), f"parse of object {slot}"))
                    elif op[0] == "m":
                        mutate_result(objs[slot])
                    elif op[0] == "o":
                        obs.append((i, k, result_digests(objs[slot]), f"result of object {slot} looked at again"))
                    elif op[0] == "s":
                        if objs[slot].data_available:
                            objs[slot].setup_parser()
                    elif op[0] == "r":
                        if objs[slot].data_available:
                            objs[slot].read_data()
                    elif op[0] == "f":
                        p = objs[slot]
                        if p.data_available:
                            p.postprocess_data()
                        obs.append((i, k, result_digests(p), f"parse of object {slot} in its three public steps"))
                except (Exception, SystemExit) as err:
                    failed[slot] = {"error": type(err).__name__}
                    objs.pop(slot, None)
                    if op[0] in "pf":
                        obs.append((i, k, failed[slot], f"parse of object {slot}"))
            if on_event is not None:
                on_event(i, e)
    return obs


# -------------------------------------------------------------------------------------------------
# deep in-place mutation of a result (what a caller may do with what it was handed)


def mutate(o, depth=0, seen=None) -> int:
    """change every mutable object reachable from `o` in place; returns the number of objects changed"""
    import numpy as np

    if seen is None:
        seen = set()
    if depth > MAX_DEPTH or id(o) in seen:
        return 0
    seen.add(id(o))
    n = 0
    if isinstance(o, np.ndarray):
        if o.dtype == object:
            for x in o.ravel().tolist():
                n += mutate(x, depth + 1, seen)
        try:
            if o.flags.writeable and o.size:
                if o.dtype.kind in "fc":
                    o[...] = -12345.678
                elif o.dtype.kind in "iu":
                    o[...] = 77
                elif o.dtype.kind == "b":
                    o[...] = ~o
                elif o.dtype.kind in "US":
                    o[...] = "#MUT#"
                elif o.dtype.kind == "O":
                    o[...] = None
                elif o.dtype.names:
                    o[...] = np.zeros((), dtype=o.dtype)
                n += 1
        except Exception:
            pass
        return n
    if isinstance(o, dict):
        for v in list(o.values()):
            n += mutate(v, depth + 1, seen)
        try:
            ks = list(o.keys())
            if ks:
                del o[ks[0]]
            o["__verif_mutated__"] = ["x"]
            n += 1
        except Exception:
            pass
        return n
    if isinstance(o, list):
        for v in list(o):
            n += mutate(v, depth + 1, seen)
        try:
            if o:
                o.pop()
            o.append("__verif_mutated__")
            o.reverse()
            n += 1
        except Exception:
            pass
        return n
    if isinstance(o, (set,)):
        o.add("__verif_mutated__")
        return 1
    if isinstance(o, (tuple, frozenset)):
        for v in o:
            n += mutate(v, depth + 1, seen)
        return n
    if isinstance(o, (str, bytes, int, float, bool, type(None), type, types.FunctionType, types.ModuleType)):
        return 0
    try:
        import pandas as pd

        if isinstance(o, pd.DataFrame):
            if len(o.columns):
                o.drop(columns=[o.columns[0]], inplace=True)
            return 1
    except Exception:
        pass
    d = getattr(o, "__dict__", None)
    if isinstance(d, dict):
        for v in list(d.values()):
            n += mutate(v, depth + 1, seen)
    return n


def mutate_result(parser) -> int:
    """mutate what the caller gets from the parser: as_dict() (with and without meta) and .meta"""
    n = 0
    try:
        n += mutate(parser.as_dict())
    except Exception:
        pass
    try:
        n += mutate(parser.as_dict(include_meta=True))
    except Exception:
        pass
    n += mutate(parser.meta)
    for a in ("header",):
        if hasattr(parser, a):
            n += mutate(getattr(parser, a))
    return n


# -------------------------------------------------------------------------------------------------
# snapshot of process-wide mutable cells of loaded midgard modules

CONTAINERS = (dict, list, set, collections.deque, bytearray)


def _fp(v) -> str:
    try:
        body = ADDR.sub("", repr(v))
    except Exception:
        body = "<unrepr>"
    return f"{type(v).__name__}:{len(v) if hasattr(v, '__len__') else '?'}:{hashlib.sha1(body.encode()).hexdigest()[:12]}"


def _func_cells(mod: str, qual: str, fn, out: dict):
    seen = set()
    f = fn
    while f is not None and id(f) not in seen:
        seen.add(id(f))
        if hasattr(f, "cache_info") and callable(getattr(f, "cache_info", None)):
            try:
                out[f"{mod}:{getattr(f, '__name__', qual)}@lru_cache"] = ("lrucache", f"size:{f.cache_info().currsize}")
            except Exception:
                pass
        d = getattr(f, "__dict__", None)
        if isinstance(d, dict):
            for k, v in d.items():
                if isinstance(v, CONTAINERS):
                    out[f"{mod}:{qual}.<func>.{k}"] = ("funcattr", _fp(v))
        try:
            for nm, cell in zip(getattr(getattr(f, "__code__", None), "co_freevars", ()), getattr(f, "__closure__", None) or ()):
                v = cell.cell_contents
                if isinstance(v, CONTAINERS):
                    out[f"{mod}:{qual}.<closure>.{nm}"] = ("closure", _fp(v))
        except ValueError:  # empty cell
            pass
        for defs in (getattr(f, "__defaults__", None) or ()), tuple((getattr(f, "__kwdefaults__", None) or {}).values()):
            for i, v in enumerate(defs):
                if isinstance(v, CONTAINERS):
                    out[f"{mod}:{qual}(default #{i})"] = ("default", _fp(v))
        f = getattr(f, "__wrapped__", None)


def snapshot_cells(repo: str) -> dict:
    """{cell id: (kind, fingerprint)} for every mutable container hanging off a loaded midgard module, class,
    function object or default argument"""
    out: dict = {}
    for name, m in list(sys.modules.items()):
        if not (name == "midgard" or name.startswith("midgard.")) or m is None:
            continue
        f = getattr(m, "__file__", None) or ""
        if not f.startswith(repo):
            continue
        for k, v in list(vars(m).items()):
            if k.startswith("__"):
                continue
            if isinstance(v, CONTAINERS):
                out[f"{name}:{k}"] = ("module", _fp(v))
            elif isinstance(v, type) and getattr(v, "__module__", None) == name:
                for ck, cv in list(vars(v).items()):
                    if ck.startswith("__") and ck != "__init__":
                        continue
                    if isinstance(cv, CONTAINERS):
                        out[f"{name}:{v.__name__}.{ck}"] = ("class", _fp(cv))
                    else:
                        fn = cv.__func__ if isinstance(cv, (staticmethod, classmethod)) else cv
                        if isinstance(fn, property):
                            fn = fn.fget
                        if callable(fn) and (isinstance(fn, types.FunctionType) or hasattr(fn, "__wrapped__")):
                            _func_cells(name, f"{v.__name__}.{ck}", fn, out)
            elif (isinstance(v, types.FunctionType) or hasattr(v, "__wrapped__")) and getattr(v, "__module__", None) == name:
                _func_cells(name, k, v, out)
    return out


# -------------------------------------------------------------------------------------------------
# object identity: which mutable objects can be reached from where


def _is_box(v) -> bool:
    import numpy as np

    return isinstance(v, CONTAINERS) or isinstance(v, np.ndarray)


def reachable_boxes(root, depth: int = 6) -> dict:
    """{id: short description} of the mutable containers / arrays reachable from `root` through containers, tuples and
    instance dictionaries"""
    out: dict = {}
    seen = set()

    def walk(o, d, where):
        if id(o) in seen or d > depth:
            return
        seen.add(id(o))
        if _is_box(o):
            out[id(o)] = f"{where} ({type(o).__name__})"
        if isinstance(o, dict):
            for k, v in list(o.items())[:400]:
                walk(v, d + 1, f"{where}[{k!r}]"[:120])
        elif isinstance(o, (list, tuple, set, frozenset, collections.deque)):
            for j, v in enumerate(list(o)[:400]):
                walk(v, d + 1, f"{where}[{j}]"[:120])
        elif hasattr(o, "__dict__") and not isinstance(o, (type, types.ModuleType)) and not callable(o):
            # through the attributes of a plain object (its __dict__ itself is not counted: replacing an attribute of a
            # shared constant object such as an Ellipsoid is not what a caller does with a result)
            for k, v in list(vars(o).items())[:200]:
                walk(v, d + 1, f"{where}.{k}"[:120])

    walk(root, 0, "")
    return out


def shared_boxes(repo: str) -> dict:
    """{id: cell id} of every mutable container reachable from a process-wide cell of the loaded midgard modules
    (module attributes, class attributes, function attributes, defaults, closures, and what lru_caches can be asked for)"""
    out: dict = {}

    def add(cid, v):
        for i, w in reachable_boxes(v, depth=3).items():
            out.setdefault(i, cid + w.split(" (")[0])

    def func(mod, qual, fn):
        f, seen = fn, set()
        while f is not None and id(f) not in seen:
            seen.add(id(f))
            for k, v in (getattr(f, "__dict__", None) or {}).items():
                if _is_box(v):
                    add(f"{mod}:{qual}.<func>.{k}", v)
            for v in (getattr(f, "__defaults__", None) or ()) + tuple((getattr(f, "__kwdefaults__", None) or {}).values()):
                if _is_box(v):
                    add(f"{mod}:{qual}(default)", v)
            try:
                for nm, cell in zip(getattr(getattr(f, "__code__", None), "co_freevars", ()), getattr(f, "__closure__", None) or ()):
                    if _is_box(cell.cell_contents):
                        add(f"{mod}:{qual}.<closure>.{nm}", cell.cell_contents)
            except ValueError:
                pass
            f = getattr(f, "__wrapped__", None)

    for name, m in list(sys.modules.items()):
        if not (name == "midgard" or name.startswith("midgard.")) or m is None:
            continue
        if not (getattr(m, "__file__", None) or "").startswith(repo):
            continue
        for k, v in list(vars(m).items()):
            if k.startswith("__"):
                continue
            if _is_box(v):
                add(f"{name}:{k}", v)
            elif isinstance(v, type) and getattr(v, "__module__", None) == name:
                for ck, cv in list(vars(v).items()):
                    if ck.startswith("__") and ck != "__init__":
                        continue
                    if _is_box(cv):
                        add(f"{name}:{v.__name__}.{ck}", cv)
                    else:
                        fn = cv.__func__ if isinstance(cv, (staticmethod, classmethod)) else cv
                        if isinstance(fn, property):
                            fn = fn.fget
                        if callable(fn) and (isinstance(fn, types.FunctionType) or hasattr(fn, "__wrapped__")):
                            func(name, f"{v.__name__}.{ck}", fn)
            elif (isinstance(v, types.FunctionType) or hasattr(v, "__wrapped__")) and getattr(v, "__module__", None) == name:
                func(name, k, v)
    return out
