"""C11 — RINEX observation files (2.x, 3.x) are parsed into exactly the records they contain.

translate:   translator/extract_rinex_obs.py (every `fields` table of Rinex3Parser / Rinex2Parser
             -> lean/Midgard/Generated/Rinex3ObsCols.lean, Rinex2ObsCols.lean)
prove:       lean/Midgard/Props/C11.lean
correspond:  random observation-file models -> independent Python writer -> text; the Lean spec renderer
             (RINEX 3.04 / 2.11 layouts) must write the same text; the real parser and the Lean model of
             the ChainParser/Rinex{2,3}Parser state machines parse it; `data`, `meta` and the time column
             of `as_dataset()` are compared canonically (numbers as exact rationals)
oracle:      the real parser's output compared directly with the generating model (no Lean)
"""
from __future__ import annotations

import datetime as _dt
import math
import os
import shutil
import tempfile
from fractions import Fraction
from typing import Any, Dict, List, Optional, Tuple

import numpy as np

from . import common
from .common import Ctx, frac, hexs, rs, unhex

EPOCH = _dt.datetime(1, 1, 1)
US = _dt.timedelta(microseconds=1)


def micros(dt: _dt.datetime) -> int:
    return (dt - EPOCH) // US


# ================================================================================================
# generator

SYS3 = ["G", "R", "E", "C", "J", "S", "I"]
BANDS = {"G": "125", "R": "12346", "E": "15678", "C": "125678", "J": "1256", "S": "15", "I": "59"}
ATTRS = "CWXPLSQIZABD"
TEXT = "ABCDEFGHIJKLMNOPQRSTUVWXYZabcdefghijklmnopqrstuvwxyz0123456789 #*-+./:(),=_"
TYPES2 = ["C1", "P1", "L1", "D1", "S1", "C2", "P2", "L2", "D2", "S2", "C5", "L5", "D5", "S5", "C6", "L6", "D6", "S6",
          "C7", "L7", "D7", "S7", "C8", "L8", "D8", "S8"]
DYADIC_RATES = [1, 2, 5, 10, 15, 30, 60, 300, 0.5, 0.25, 2.5, 7.5]
DECIMAL_RATES = [0.1, 0.2, 0.05, 0.3, 0.6]


def rtext(rng, n: int, lead: bool = False) -> str:
    k = rng.randint(0, n)
    s = "".join(rng.choice(TEXT) for _ in range(k)).strip()
    if lead and s and rng.random() < 0.2:
        s = (" " * rng.randint(1, 3) + s)[:n].rstrip()
    return s


def fixed(rng, lo: int, hi: int, places: int, drop_zero: bool = False) -> str:
    scale = 10 ** places
    n = rng.randint(lo * scale, hi * scale)
    s = "-" if n < 0 else ""
    n = abs(n)
    ip = str(n // scale)
    if drop_zero and ip == "0" and rng.random() < 0.5:
        ip = ""  # Fortran style ".300"
    return f"{s}{ip}.{n % scale:0{places}d}"


def gen_obs(rng, kind: str) -> List[str]:
    """one observation: [value text (F14.3) or '', LLI or '', SNR or '']"""
    k = rng.random()
    if k < 0.15:
        return ["", "", ""]  # blank
    if k < 0.22:
        return [rng.choice(["0.000", ".000", "-0.000", "-.000", "+0.000"]), rng.choice(["", "0"]), rng.choice(["", "0", "5"])]  # zero = absent
    if k < 0.27:
        v = rng.choice(["-123456789.123", "1234567890.123", "9999999999.999", "-999999999.999", "123456789.123"])
    elif k < 0.32:
        v = fixed(rng, -999, 999, 3, True)
    elif kind == "C":
        v = fixed(rng, 19000000, 41000000, 3)
    elif kind == "L":
        v = fixed(rng, -130000000, 220000000, 3)
    elif kind == "D":
        v = fixed(rng, -5000, 5000, 3, True)
    else:
        v = fixed(rng, 10, 60, 3)
    lli = rng.choice(["", "", "", "0", "1", "2", "4", "7"])
    snr = rng.choice(["", "", "1", "4", "5", "6", "7", "8", "9", "0"])
    return [v, lli, snr]


def gen_seconds(rng, subsecond: bool) -> str:
    if not subsecond:
        return f"{rng.choice([0, 0, 0, 30, 15, 59, 1, 45, rng.randint(0, 59)])}.0000000"
    k = rng.random()
    if k < 0.4:
        return f"{rng.randint(0, 59)}.{rng.choice(['5000000', '2500000', '7500000', '1250000', '0000000'])}"
    if k < 0.5:
        return rng.choice(["59.9999999", "0.0000001", "0.0000005", "59.9999995", "30.1000000", "0.3000000"])
    return f"{rng.randint(0, 59)}.{rng.randint(0, 9999999):07d}"


def gen_clk(rng, places: int = 12) -> str:
    k = rng.random()
    if k < 0.5:
        return ""
    if k < 0.6:
        return rng.choice(["0." + "0" * places, "." + "0" * places, "-0." + "0" * places])
    return fixed(rng, -1, 1, places, True)


def gen_header_common(rng, m):
    m["program"], m["run_by"], m["file_created"] = rtext(rng, 20), rtext(rng, 20), rng.choice(["20180921 100314 UTC", "24-MAR-01 14:43", ""])
    m["comments"] = [(rng.random(), rtext(rng, 60, True)) for _ in range(rng.randint(0, 4))]
    m["marker_name"] = rng.choice(["trds", "STAS", "A 9080", "Kir0", "x"]) if rng.random() < 0.8 else (rtext(rng, 60) or "m")
    m["marker_number"] = rtext(rng, 20)
    m["observer"], m["agency"] = rtext(rng, 20), rtext(rng, 40)
    m["receiver_number"], m["receiver_type"], m["receiver_version"] = rtext(rng, 20), rng.choice(["TRIMBLE NETR9", "SEPT POLARX4", ""]), rtext(rng, 20)
    m["antenna_number"], m["antenna_type"] = rtext(rng, 20), rng.choice(["TRM55971.00     NONE", "ASH701945C_M    SCIS", ""])
    m["pos"] = [fixed(rng, -6400000, 6400000, 4) for _ in range(3)]
    if rng.random() < 0.1:
        m["pos"] = ["0.0000", "0.0000", "0.0000"]
    m["delta_hen"] = [fixed(rng, -10, 10, 4, True) for _ in range(3)]
    m["interval"] = rng.choice([None, "30.000", "1.000", "0.100", "300.000"])
    m["rcv_clk_offset_flag"] = rng.choice([None, "0", "1"])
    m["num_satellites"] = rng.choice([None, str(rng.randint(1, 120))])


def gen_date(rng):
    y = rng.choice([rng.randint(1980, 2079), rng.randint(1995, 2030), 2000, 1999, 2009, 2010])
    mo = rng.randint(1, 12)
    d = rng.randint(1, 28)
    return y, mo, d


def gen_epochs(rng, m, n_ep: int, subsecond: bool, sats_of_epoch, clk_places: int = 12):
    gen_clk_ = lambda r: gen_clk(r, clk_places)
    y, mo, d = gen_date(rng)
    t = _dt.datetime(y, mo, d, rng.randint(0, 22), rng.randint(0, 59))
    step = rng.choice([1, 5, 15, 30, 60, 300])
    eps = []
    used = set()
    for i in range(n_ep):
        sec = gen_seconds(rng, subsecond)
        key = (t, sec)
        if key in used or t.year != y:
            break
        used.add(key)
        ep = {"date": [t.year, t.month, t.day, t.hour, t.minute, sec], "clk": gen_clk_(rng), "sats": sats_of_epoch()}
        eps.append(ep)
        if subsecond and rng.random() < 0.5 and Fraction(sec) < 59:
            # next epoch in the same minute, later second
            nxt = Fraction(sec) + Fraction(rng.choice([1, 2, 5, 10, 25, 50]), 10)
            if nxt < 60:
                t2 = t
                sec2 = f"{int(nxt)}.{int((nxt - int(nxt)) * 10**7):07d}"
                if (t2, sec2) not in used and len(eps) < n_ep:
                    used.add((t2, sec2))
                    eps.append({"date": [t.year, t.month, t.day, t.hour, t.minute, sec2], "clk": gen_clk_(rng), "sats": sats_of_epoch()})
        t = t + _dt.timedelta(seconds=step * rng.randint(1, 3)) if step >= 60 else t + _dt.timedelta(minutes=rng.randint(1, 3))
    m["epochs"] = eps
    first = eps[0]["date"]
    m["time_first"] = list(first)
    m["time_last"] = list(eps[-1]["date"]) if rng.random() < 0.6 else None


def gen_file3(rng, thorough: bool) -> Dict[str, Any]:
    m: Dict[str, Any] = {"fmt": 3}
    m["version"] = rng.choice(["3.03", "3.04", "3.02", "3.00"])
    nsys = rng.choice([1, 1, 2, 3, 4])
    systems = sorted(rng.sample(SYS3, nsys))
    m["sat_sys"] = systems[0] if nsys == 1 and rng.random() < 0.7 else "M"
    gen_header_common(rng, m)
    m["marker_type"] = rng.choice([None, "GEODETIC", "NON_GEODETIC"])
    m["delta_xyz"] = [fixed(rng, -10, 10, 4) for _ in range(3)] if rng.random() < 0.15 else None
    m["signal_strength_unit"] = rng.choice([None, "DBHZ"])
    maxt = 30 if thorough else 18
    m["obstypes"] = {}
    for s in systems:
        pool = [k + b + a for b in BANDS[s] for a in ATTRS[:6] for k in "CLDS"]
        n = rng.choice([1, 2, 4, 8, 12, 13, 14, 16, rng.randint(1, maxt), rng.randint(1, maxt)])
        n = min(n, maxt, len(pool))
        m["obstypes"][s] = rng.sample(pool, n)
    # a declared system without observations (removed by the post-processor)
    m["empty_systems"] = {}
    if rng.random() < 0.15:
        s = rng.choice([x for x in SYS3 if x not in systems])
        m["empty_systems"][s] = ["C1C", "L1C"]
    # optional header records with their own little state machines
    m["dcbs"] = [(s, rtext(rng, 17), rtext(rng, 40)) for s in systems if rng.random() < 0.2]
    m["pcvs"] = [(s, rtext(rng, 17), rtext(rng, 40)) for s in systems if rng.random() < 0.2]
    m["phase_shift"] = []
    if rng.random() < 0.4:
        for s in systems:
            for t in [x for x in m["obstypes"][s] if x[0] == "L"][: rng.randint(0, 3)]:
                nsat = rng.choice([0, 0, 3, 10, 12, 23])
                m["phase_shift"].append((s, t, rng.choice(["0.00000", "0.25000", "-0.25000"]), [f"{s}{k + 1:02d}" for k in range(nsat)]))
    m["glonass_slot"] = []
    if "R" in systems and rng.random() < 0.7:
        n = rng.choice([1, 8, 9, 16, 22, 24])
        m["glonass_slot"] = [(f"R{k + 1:02d}", str(rng.randint(-7, 6))) for k in range(n)]
    m["glonass_bias"] = [(t, fixed(rng, -99, 99, 3)) for t in ["C1C", "C1P", "C2C", "C2P"][: rng.randint(0, 4)]] if "R" in systems and rng.random() < 0.6 else None
    m["leap"] = rng.choice([None, ["18", "", "", "", ""], ["16", "17", "1851", "3", ""], ["18", "18", "2185", "7", "GPS"]])
    nsat_max = 40 if thorough else 14
    n_ep = rng.randint(1, 12 if thorough else 5)
    subsecond = rng.random() < 0.3

    def sats_of_epoch():
        nsat = rng.choice([1, 2, rng.randint(1, nsat_max), rng.randint(1, nsat_max)])
        sats = []
        seen = set()
        for _ in range(nsat):
            s = rng.choice(systems)
            prn = f"{s}{rng.randint(1, 40):02d}"
            if prn in seen:
                continue
            seen.add(prn)
            sats.append({"sat": prn, "obs": [gen_obs(rng, t[0]) for t in m["obstypes"][s]]})
        if rng.random() < 0.3:
            sats.sort(key=lambda x: x["sat"])
        return sats

    gen_epochs(rng, m, n_ep, subsecond, sats_of_epoch)
    # one type that is blank for every satellite (removed by the post-processor), sometimes
    if rng.random() < 0.2:
        s = rng.choice(systems)
        k = rng.randrange(len(m["obstypes"][s]))
        for ep in m["epochs"]:
            for sat in ep["sats"]:
                if sat["sat"][0] == s:
                    sat["obs"][k] = ["", "", ""]
    m["style"] = rng.choice(["stripped", "stripped", "padded80", "asis"])
    m["month_pad"] = rng.choice(["0", " "])
    return m


def gen_file2(rng, thorough: bool) -> Dict[str, Any]:
    m: Dict[str, Any] = {"fmt": 2}
    m["version"] = rng.choice(["2.11", "2.10", "2.12"])
    nsys = rng.choice([1, 1, 2, 3])
    systems = sorted(rng.sample(["G", "R", "E", "S"], nsys))
    m["blank_sys"] = systems == ["G"] and rng.random() < 0.3  # GPS-only file with blank system identifiers
    m["sat_sys"] = ("" if m["blank_sys"] or rng.random() < 0.3 else "G") if systems == ["G"] else (systems[0] if nsys == 1 else "M")
    gen_header_common(rng, m)
    maxt = 26 if thorough else 14
    n = rng.choice([1, 2, 4, 5, 6, 9, 10, 11, 14, rng.randint(1, maxt), rng.randint(1, maxt)])
    m["obstypes"] = rng.sample(TYPES2, min(n, maxt))
    m["wave_fact"] = None
    if rng.random() < 0.5:
        m["wave_fact"] = {"default": [rng.choice("12"), rng.choice("12")], "prn": None}
        if rng.random() < 0.3:
            m["wave_fact"]["prn"] = [rng.choice("12"), rng.choice("12"), [f"G{rng.randint(1, 32):02d}" for _ in range(rng.randint(1, 7))]]
    m["leap"] = rng.choice([None, "13", "18"])
    nsat_max = 40 if thorough else 16
    n_ep = rng.randint(1, 12 if thorough else 5)
    subsecond = rng.random() < 0.3

    def sats_of_epoch():
        nsat = rng.choice([1, 2, 12, 13, 24, 25, rng.randint(1, nsat_max), rng.randint(1, nsat_max)])
        nsat = min(nsat, nsat_max)
        sats = []
        seen = set()
        for _ in range(nsat):
            s = rng.choice(systems)
            prn = f"{s}{rng.randint(1, 40):02d}"
            if prn in seen:
                continue
            seen.add(prn)
            sats.append({"sat": prn, "obs": [gen_obs(rng, t[0] if t[0] != "P" else "C") for t in m["obstypes"]]})
        return sats

    gen_epochs(rng, m, n_ep, subsecond, sats_of_epoch, 9)
    if rng.random() < 0.2:
        k = rng.randrange(len(m["obstypes"]))
        for ep in m["epochs"]:
            for sat in ep["sats"]:
                sat["obs"][k] = ["", "", ""]
    m["sat_pad"] = rng.choice(["0", "0", " "])  # "G07" or "G 7"
    m["style"] = rng.choice(["stripped", "stripped", "padded80", "asis"])
    return m


# ================================================================================================
# records (for the Lean spec renderer) and the independent writer

def header_records_common(m) -> List[Tuple[str, List[str]]]:
    r: List[Tuple[str, List[str]]] = []
    r.append(("PGM", [m["program"], m["run_by"], m["file_created"]]))
    r.append(("MNAME", [m["marker_name"]]))
    r.append(("MNUM", [m["marker_number"]]))
    if m.get("marker_type"):
        r.append(("MTYPE", [m["marker_type"]]))
    r.append(("OBSAG", [m["observer"], m["agency"]]))
    r.append(("REC", [m["receiver_number"], m["receiver_type"], m["receiver_version"]]))
    r.append(("ANT", [m["antenna_number"], m["antenna_type"]]))
    r.append(("POS", list(m["pos"])))
    r.append(("DHEN", list(m["delta_hen"])))
    if m.get("delta_xyz"):
        r.append(("DXYZ", list(m["delta_xyz"])))
    return r


def time_rec(kind, v) -> Tuple[str, List[str]]:
    return (kind, [str(x) for x in v] + ["GPS"])


def records3(m) -> List[Tuple[str, List[str]]]:
    r: List[Tuple[str, List[str]]] = [("VER3", [m["version"], "O", m["sat_sys"]])]
    r += header_records_common(m)
    decl = dict(m["obstypes"])
    decl.update(m["empty_systems"])
    for s in sorted(decl):
        ts = decl[s]
        r.append(("SYSOBS", [s, str(len(ts))] + ts[:13]))
        for i in range(13, len(ts), 13):
            r.append(("SYSOBSC", ts[i:i + 13]))
    if m["signal_strength_unit"]:
        r.append(("SSU", [m["signal_strength_unit"]]))
    if m["interval"]:
        r.append(("INTERVAL", [m["interval"]]))
    r.append(time_rec("TFIRST", m["time_first"]))
    if m["time_last"]:
        r.append(time_rec("TLAST", m["time_last"]))
    if m["rcv_clk_offset_flag"] is not None:
        r.append(("RCVCLK", [m["rcv_clk_offset_flag"]]))
    for s, prg, url in m["dcbs"]:
        r.append(("DCBS", [s, prg, url]))
    for s, prg, url in m["pcvs"]:
        r.append(("PCVS", [s, prg, url]))
    for s, t, corr, sats in m["phase_shift"]:
        r.append(("PSHIFT", [s, t, corr, f"{len(sats):02d}" if sats else ""] + sats[:10]))
        for i in range(10, len(sats), 10):
            r.append(("PSHIFTC", sats[i:i + 10]))
    gs = m["glonass_slot"]
    if gs:
        r.append(("GSLOT", [str(len(gs))] + [x for sl, fq in gs[:8] for x in (sl, fq)]))
        for i in range(8, len(gs), 8):
            r.append(("GSLOTC", [x for sl, fq in gs[i:i + 8] for x in (sl, fq)]))
    if m["glonass_bias"] is not None:
        r.append(("GBIAS", [x for t, b in m["glonass_bias"] for x in (t, b)]))
    if m["leap"]:
        r.append(("LEAP3", list(m["leap"])))
    if m["num_satellites"]:
        r.append(("NSAT", [m["num_satellites"]]))
    insert_comments(r, m)
    shuffle_header(r, m)
    r.append(("EOH", []))
    for ep in m["epochs"]:
        y, mo, d, h, mi, s = ep["date"]
        p = m["month_pad"]
        two = (lambda x: f"{x:02d}") if p == "0" else (lambda x: f"{x:2d}")
        special = ep.get("special")  # event epoch (flag 2-5): the count is the number of special records that follow
        nrec = len(ep["sats"]) if special is None else len(special)
        r.append(("EPOCH3", [str(y), two(mo), two(d), two(h), two(mi), s, ep.get("flag", "0"), str(nrec), ep["clk"]]))
        for k, c in special or []:
            r.append((k, list(c)))
        for sat in ep["sats"]:
            r.append(("OBS3", [sat["sat"]] + [c for o in sat["obs"] for c in o]))
    return r


def shuffle_header(r, m):
    """file-model blocks only (m["hdr_shuffle"] = a seed): the header records after the version record in a random order that keeps
    the relative order inside a family (comments; # / TYPES OF OBSERV and its continuation records; the wavelength records; the
    phase-shift / GLONASS slot records with their continuation records; DCBS / PCVS) and keeps a SYS / # / OBS TYPES record together
    with its continuation lines - the order the file-level theorems allow"""
    seed = m.get("hdr_shuffle")
    if seed is None:
        return
    import random
    rnd = random.Random(seed)
    fam = {"TYPES2C": "TYPES2", "PSHIFTC": "PSHIFT", "GSLOTC": "GSLOT", "SYSOBSC": "SYSOBS"}
    units: List[Tuple[str, List[Tuple[str, List[str]]]]] = []
    for rec in r[1:]:
        if rec[0] == "SYSOBSC":
            units[-1][1].append(rec)
        else:
            units.append((fam.get(rec[0], rec[0]), [rec]))
    order = [f for f, _ in units]
    rnd.shuffle(order)
    queues: Dict[str, List[List[Tuple[str, List[str]]]]] = {}
    for f, u in units:
        queues.setdefault(f, []).append(u)
    r[1:] = [rec for f in order for rec in queues[f].pop(0)]


def insert_comments(r, m):
    for p, t in sorted(m["comments"], key=lambda x: x[0]):
        idx = 1 + int(p * (len(r) - 1))
        # never between a record and its continuation line
        while idx < len(r) and r[idx][0] in ("SYSOBSC", "PSHIFTC", "GSLOTC", "TYPES2C"):
            idx += 1
        r.insert(idx, ("COM", [t]))


def sat2(m, prn: str) -> str:
    s = prn
    if m["sat_pad"] == " " and s[1] == "0":
        s = s[0] + " " + s[2]
    if m["blank_sys"]:
        s = " " + s[1:]
    return s


def records2(m) -> List[Tuple[str, List[str]]]:
    r: List[Tuple[str, List[str]]] = [("VER2", [m["version"], "O", m["sat_sys"]])]
    r += header_records_common(m)
    if m["wave_fact"]:
        r.append(("WAVE", list(m["wave_fact"]["default"]) + [""] + [""] * 7))
        if m["wave_fact"]["prn"]:
            a, b, prns = m["wave_fact"]["prn"]
            r.append(("WAVE", [a, b, str(len(prns))] + prns + [""] * (7 - len(prns))))
    ts = m["obstypes"]
    r.append(("TYPES2", [str(len(ts))] + ts[:9]))
    for i in range(9, len(ts), 9):
        r.append(("TYPES2C", ts[i:i + 9]))
    if m["interval"]:
        r.append(("INTERVAL", [m["interval"]]))
    r.append(time_rec("TFIRST", m["time_first"]))
    if m["time_last"]:
        r.append(time_rec("TLAST", m["time_last"]))
    if m["rcv_clk_offset_flag"] is not None:
        r.append(("RCVCLK", [m["rcv_clk_offset_flag"]]))
    if m["leap"]:
        r.append(("LEAP2", [m["leap"]]))
    if m["num_satellites"]:
        r.append(("NSAT", [m["num_satellites"]]))
    insert_comments(r, m)
    shuffle_header(r, m)
    r.append(("EOH", []))
    for ep in m["epochs"]:
        y, mo, d, h, mi, s = ep["date"]
        sats = [sat2(m, x["sat"]) for x in ep["sats"]]
        r.append(("EPOCH2", [f"{y % 100:02d}", str(mo), str(d), str(h), str(mi), s, ep.get("flag", "0"), str(len(sats)), ep["clk"]] + sats[:12]))
        for i in range(12, len(sats), 12):
            r.append(("EPOCH2C", sats[i:i + 12]))
        for sat in ep["sats"]:
            obs = sat["obs"]
            for i in range(0, len(obs), 5):
                r.append(("OBS2", [c for o in obs[i:i + 5] for c in o]))
    return r


def records_line(recs) -> str:
    return " ".join(k + ":" + ",".join(hexs(c) for c in cells) for k, cells in recs)


LABELS = {"VER3": "RINEX VERSION / TYPE", "VER2": "RINEX VERSION / TYPE", "PGM": "PGM / RUN BY / DATE", "COM": "COMMENT",
          "MNAME": "MARKER NAME", "MNUM": "MARKER NUMBER", "MTYPE": "MARKER TYPE", "OBSAG": "OBSERVER / AGENCY",
          "REC": "REC # / TYPE / VERS", "ANT": "ANT # / TYPE", "POS": "APPROX POSITION XYZ", "DHEN": "ANTENNA: DELTA H/E/N",
          "DXYZ": "ANTENNA: DELTA X/Y/Z", "SYSOBS": "SYS / # / OBS TYPES", "SYSOBSC": "SYS / # / OBS TYPES",
          "SSU": "SIGNAL STRENGTH UNIT", "INTERVAL": "INTERVAL", "TFIRST": "TIME OF FIRST OBS", "TLAST": "TIME OF LAST OBS",
          "RCVCLK": "RCV CLOCK OFFS APPL", "DCBS": "SYS / DCBS APPLIED", "PCVS": "SYS / PCVS APPLIED",
          "PSHIFT": "SYS / PHASE SHIFT", "PSHIFTC": "SYS / PHASE SHIFT", "GSLOT": "GLONASS SLOT / FRQ #",
          "GSLOTC": "GLONASS SLOT / FRQ #", "GBIAS": "GLONASS COD/PHS/BIS", "LEAP3": "LEAP SECONDS", "LEAP2": "LEAP SECONDS",
          "NSAT": "# OF SATELLITES", "EOH": "END OF HEADER", "WAVE": "WAVELENGTH FACT L1/2", "TYPES2": "# / TYPES OF OBSERV",
          "TYPES2C": "# / TYPES OF OBSERV"}


def obs_cell(o: List[str]) -> str:
    return f"{o[0]:>14}{o[1]:1}{o[2]:1}"


def write_record(kind: str, c: List[str]) -> str:
    """Fortran edit descriptors of RINEX 3.04 table A2/A3 and RINEX 2.11 table A1/A2 as % formats"""
    def lab(body: str) -> str:
        return f"{body:<60.60}{LABELS[kind]}"

    if kind in ("VER3", "VER2"):  # F9.2,11X,A1,19X,A1,19X
        return lab(f"{c[0]:>9}{'':11}{c[1]:1}{'':19}{c[2]:1}")
    if kind == "PGM":
        return lab(f"{c[0]:<20}{c[1]:<20}{c[2]:<20}")
    if kind in ("COM", "MNAME"):
        return lab(c[0])
    if kind in ("MNUM", "MTYPE", "SSU"):
        return lab(f"{c[0]:<20}")
    if kind == "OBSAG":
        return lab(f"{c[0]:<20}{c[1]:<40}")
    if kind == "REC":
        return lab(f"{c[0]:<20}{c[1]:<20}{c[2]:<20}")
    if kind == "ANT":
        return lab(f"{c[0]:<20}{c[1]:<20}")
    if kind in ("POS", "DHEN", "DXYZ"):  # 3F14.4
        return lab("".join(f"{x:>14}" for x in c))
    if kind == "SYSOBS":  # A1,2X,I3,13(1X,A3)
        return lab(f"{c[0]:1}  {c[1]:>3}" + "".join(f" {t:<3}" for t in c[2:]))
    if kind == "SYSOBSC":  # 6X,13(1X,A3)
        return lab(" " * 6 + "".join(f" {t:<3}" for t in c))
    if kind == "INTERVAL":  # F10.3
        return lab(f"{c[0]:>10}")
    if kind in ("TFIRST", "TLAST"):  # 5I6,F13.7,5X,A3
        return lab("".join(f"{x:>6}" for x in c[:5]) + f"{c[5]:>13}{'':5}{c[6]:<3}")
    if kind in ("RCVCLK", "NSAT", "LEAP2"):  # I6
        return lab(f"{c[0]:>6}")
    if kind in ("DCBS", "PCVS"):  # A1,1X,A17,1X,A40
        return lab(f"{c[0]:1} {c[1]:<17} {c[2]:<40}")
    if kind == "PSHIFT":  # A1,1X,A3,1X,F8.5,2X,I2.2,10(1X,A3)
        return lab(f"{c[0]:1} {c[1]:<3} {c[2]:>8}  {c[3]:>2}" + "".join(f" {s:<3}" for s in c[4:]))
    if kind == "PSHIFTC":  # 18X,10(1X,A3)
        return lab(" " * 18 + "".join(f" {s:<3}" for s in c))
    if kind == "GSLOT":  # I3,1X,8(A1,I2.2,1X,I2,1X)
        return lab(f"{c[0]:>3} " + "".join(f"{c[i]:<3} {c[i + 1]:>2} " for i in range(1, len(c), 2)))
    if kind == "GSLOTC":  # 4X,8(...)
        return lab("    " + "".join(f"{c[i]:<3} {c[i + 1]:>2} " for i in range(0, len(c), 2)))
    if kind == "GBIAS":  # 4(X1,A3,X1,F8.3)
        return lab("".join(f" {c[i]:<3} {c[i + 1]:>8}" for i in range(0, len(c), 2)))
    if kind == "LEAP3":  # I6,I6,I6,I6,A3
        return lab("".join(f"{x:>6}" for x in c[:4]) + f"{c[4]:<3}")
    if kind == "EOH":
        return lab("")
    if kind == "WAVE":  # 2I6,I6,7(3X,A1,I2)
        return lab(f"{c[0]:>6}{c[1]:>6}{c[2]:>6}" + "".join(f"   {p:<3}" for p in c[3:10]))
    if kind == "TYPES2":  # I6,9(4X,A2)
        return lab(f"{c[0]:>6}" + "".join(f"    {t:<2}" for t in c[1:]))
    if kind == "TYPES2C":  # 6X,9(4X,A2)
        return lab(" " * 6 + "".join(f"    {t:<2}" for t in c))
    if kind == "EPOCH3":  # A1,1X,I4,4(1X,I2.2),F11.7,2X,I1,I3,6X,F15.12
        return f"> {c[0]:>4} {c[1]:>2} {c[2]:>2} {c[3]:>2} {c[4]:>2}{c[5]:>11}  {c[6]:1}{c[7]:>3}{'':6}{c[8]:>15}"
    if kind == "OBS3":  # A1,I2.2,m(F14.3,I1,I1)
        return f"{c[0]:<3}" + "".join(obs_cell(c[i:i + 3]) for i in range(1, len(c), 3))
    if kind == "EPOCH2":  # 1X,I2.2,4(1X,I2),F11.7,2X,I1,I3,12(A1,I2),F12.9
        return f" {c[0]:>2} {c[1]:>2} {c[2]:>2} {c[3]:>2} {c[4]:>2}{c[5]:>11}  {c[6]:1}{c[7]:>3}" + f"{''.join(f'{s:<3}' for s in c[9:]):<36}{c[8]:>12}"
    if kind == "EPOCH2C":  # 32X,12(A1,I2)
        return " " * 32 + "".join(f"{s:<3}" for s in c)
    if kind == "OBS2":  # m(F14.3,I1,I1), 5 per line
        return "".join(obs_cell(c[i:i + 3]) for i in range(0, len(c), 3))
    raise ValueError(kind)


def write_file(m) -> str:
    recs = records3(m) if m["fmt"] == 3 else records2(m)
    lines = [write_record(k, c) for k, c in recs]
    return style_lines(lines, m["style"])


def style_lines(lines: List[str], style: str) -> str:
    if style == "stripped":
        lines = [l.rstrip() for l in lines]
    elif style == "padded80":
        lines = [f"{l:<80}" for l in lines]
    return "\n".join(lines) + "\n"


# ================================================================================================
# what the file says

def absent(text: str) -> bool:
    return text.strip() == "" or Fraction(text) == 0


def value_of(text: str) -> Optional[Fraction]:
    return None if absent(text) else Fraction(text)


def time_string(date) -> str:
    y, mo, d, h, mi, s = date
    sec = Fraction(s)
    whole = int(sec)
    frac7 = int((sec - whole) * 10**7)
    return f"{int(y)}-{int(mo):02d}-{int(d):02d}T{int(h):02d}:{int(mi):02d}:{whole:02d}.{frac7:07d}"


def sec_of_day(date) -> Fraction:
    return int(date[3]) * 3600 + int(date[4]) * 60 + Fraction(date[5])


def kept_epochs(m, rate) -> List[Dict[str, Any]]:
    if not rate:
        return list(m["epochs"])
    r = Fraction(str(rate))
    return [ep for ep in m["epochs"] if (sec_of_day(ep["date"]) / r).denominator == 1]


def expected_rows(m, rate):
    """one row per (epoch, satellite) in file order: (time string, sat, clk, epoch flag, {type: (value, lli, snr)})"""
    rows = []
    for ep in kept_epochs(m, rate):
        for sat in ep["sats"]:
            types = m["obstypes"][sat["sat"][0]] if m["fmt"] == 3 else m["obstypes"]
            rows.append({"time": time_string(ep["date"]), "sat": sat["sat"], "clk": value_of(ep["clk"]) if ep["clk"] else None,
                         "flag": int(ep.get("flag", "0")), "obs": {t: tuple(value_of(x) if x else None for x in o) for t, o in zip(types, sat["obs"])}})
    return rows


# ================================================================================================
# running the real parsers

class Workdir:
    def __init__(self):
        self.d = tempfile.mkdtemp(prefix="verif-c11-", dir="/dev/shm" if os.path.isdir("/dev/shm") else None)
        self.n = 0

    def path(self, text: str) -> str:
        self.n += 1
        p = os.path.join(self.d, f"f{self.n % 4}.rnx")
        with open(p, "w", newline="") as f:
            f.write(text)
        return p

    def close(self):
        shutil.rmtree(self.d, ignore_errors=True)


def run_impl(wd: Workdir, fmt: int, text: str, rate):
    """-> (parser | None, error kind | None, exception)"""
    if fmt == 3:
        from midgard.parsers.rinex3_obs import Rinex3Parser as P
    else:
        from midgard.parsers.rinex2_obs import Rinex2Parser as P
    p = P(wd.path(text), sampling_rate=rate)
    try:
        p.parse()
    except BaseException as e:  # SystemExit included: log.fatal of other installations
        if isinstance(e, KeyboardInterrupt):
            raise
        return None, "ERR:" + ("no-rows" if isinstance(e, KeyError) and e.args and e.args[0] == "text" else "other"), e
    return p, None, None


def nlist(x) -> str:
    out = []
    for v in np.asarray(x, dtype=float).ravel().tolist():
        out.append("nan" if v != v else rs(frac(v)))
    return ",".join(out)


def flat_meta(prefix: str, v: Any, out: Dict[str, str]):
    if isinstance(v, dict):
        if not v:
            out[prefix] = "E:"
        for k, vv in v.items():
            flat_meta(f"{prefix}|{hexs(str(k))}", vv, out)
    elif isinstance(v, (list, tuple)):
        out[prefix] = "L:" + ",".join(hexs(str(x)) for x in v)
    elif isinstance(v, bool):
        out[prefix] = "B:" + str(v)
    elif isinstance(v, int):
        out[prefix] = f"I:{v}"
    elif isinstance(v, float):
        out[prefix] = "Q:" + ("nan" if v != v else rs(frac(v)))
    elif isinstance(v, str):
        out[prefix] = "T:" + hexs(v)
    else:
        out[prefix] = "BAD:" + repr(v)[:40]


def canon_impl(p, with_dataset: bool = True) -> Dict[str, str]:
    out: Dict[str, str] = {}
    for k, v in p.meta.items():
        if k.startswith("__"):
            continue
        flat_meta(f"m|{hexs(k)}", v, out)
    d = p.as_dict()
    for k, v in d.items():
        if k in ("obs", "cycle_slip", "signal_strength"):
            for t, col in v.items():
                out[f"d|{k}|{hexs(t)}"] = "N:" + nlist(col)
        elif k == "text":
            for t, col in v.items():
                out[f"d|text|{t}"] = "L:" + ",".join(hexs(str(x)) for x in col)
        elif k == "time":
            out["d|time"] = "L:" + ",".join(hexs(str(x)) for x in v)
        elif k == "epoch_flag":
            out["d|epoch_flag"] = "N:" + nlist(v)
        elif k == "rcv_clk_offset":
            out["d|rcv_clk_offset"] = "N:" + nlist(v)
        elif k == "pos":
            out["d|pos"] = "N:" + nlist(v)
        else:
            out[f"d|{k}"] = "BAD:" + repr(v)[:40]
    out["x|time_scale"] = "T:" + hexs(p.time_scale)
    if with_dataset:
        try:
            ds = p.as_dataset()
            out["ds|num_obs"] = f"I:{ds.num_obs}"
            out["ds|time"] = "IL:" + ",".join(str(micros(t)) for t in np.atleast_1d(ds.time.datetime))
            out["ds|time_scale"] = "T:" + hexs(ds.time.scale)
        except Exception as e:
            out["ds|error"] = "T:" + hexs(type(e).__name__)
    return out


def dataset_consistent(p) -> List[Tuple[str, str]]:
    """as_dataset() columns are the columns of as_dict() (stated directly, no model)"""
    out: List[Tuple[str, str]] = []
    try:
        ds = p.as_dataset()
    except Exception as e:
        return [("as_dataset:raises", f"as_dataset raised {type(e).__name__}: {e}")]
    d = p.as_dict()
    n = len(d["time"])
    if ds.num_obs != n:
        out.append(("as_dataset:num_obs", f"num_obs {ds.num_obs} != {n} rows"))
    for grp, key in (("obs", "obs"), ("lli", "cycle_slip"), ("snr", "signal_strength")):
        for t, col in d[key].items():
            try:
                got = np.asarray(ds[f"{grp}.{t}"], dtype=float)
            except Exception as e:
                out.append((f"as_dataset:{grp}:missing", f"{grp}.{t}: {type(e).__name__}"))
                continue
            if got.shape != (n,) or not np.array_equal(got, np.asarray(col, dtype=float), equal_nan=True):
                out.append((f"as_dataset:{grp}", f"{grp}.{t} differs from the parsed column"))
    for f in ("station", "system", "satellite", "satnum"):
        got = [str(x) for x in ds[f]]
        if got != [str(x) for x in d["text"][f]]:
            out.append((f"as_dataset:text:{f}", f"text field {f} differs"))
    for f in ("epoch_flag", "rcv_clk_offset"):
        if not np.array_equal(np.asarray(ds[f], dtype=float), np.asarray(d[f], dtype=float), equal_nan=True):
            out.append((f"as_dataset:{f}", f"{f} differs"))
    sp = np.asarray(ds.site_pos.trs if hasattr(ds.site_pos, "trs") else ds.site_pos)
    if sp.shape != (n, 3) or not np.array_equal(sp, np.repeat(np.asarray(d["pos"])[None, :], n, axis=0)):
        out.append(("as_dataset:site_pos", "site_pos is not the header position on every row"))
    meta = {k: v for k, v in ds.meta.items()}
    for k, v in p.meta.items():
        if k not in meta:
            out.append(("as_dataset:meta", f"meta entry {k} missing in the dataset"))
            break
    return out


def parse_model_out(ans: str) -> Any:
    if ans.startswith("ERR:") or ans == "bad-op":
        return ans
    out = {}
    for tok in ans.split():
        k, _, v = tok.partition("=")
        out[k] = v
    return out


def floats_of(s: str) -> List[Optional[float]]:
    if not s:
        return []
    return [None if x == "nan" else float(Fraction(x)) for x in s.split(",")]


def values_match(path: str, model: str, impl: str) -> bool:
    if model == impl:
        return True
    mk, _, mv = model.partition(":")
    ik, _, iv = impl.partition(":")
    if mk != ik:
        return False
    if mk in ("N", "Q"):
        # the model carries the exact decimal, the implementation its correctly rounded double
        return floats_of(mv) == floats_of(iv)
    if mk == "IL" and path == "ds|time":
        a = [int(x) for x in mv.split(",")] if mv else []
        b = [int(x) for x in iv.split(",")] if iv else []
        # Time keeps the epoch as two doubles of Julian days (~ 0.05 us); a 7th-digit tie may round either way
        return len(a) == len(b) and all(abs(x - y) <= 1 for x, y in zip(a, b))
    return False


def compare_outputs(model: Dict[str, str], impl: Dict[str, str]) -> List[str]:
    diffs = []
    for k in sorted(set(model) - set(impl)):
        diffs.append(f"only-in-model:{k}")
    for k in sorted(set(impl) - set(model)):
        diffs.append(f"only-in-impl:{k}")
    for k in sorted(set(model) & set(impl)):
        if not values_match(k, model[k], impl[k]):
            diffs.append(f"value:{k}")
    return diffs


# ================================================================================================
# oracle: the parser's output vs the generating model

def fl(q: Optional[Fraction]) -> Optional[float]:
    return None if q is None else float(q)


def col_floats(col) -> List[Optional[float]]:
    return [None if v != v else float(v) for v in np.asarray(col, dtype=float).tolist()]


def oracle(m, p, err, rate) -> List[Tuple[str, str]]:
    out: List[Tuple[str, str]] = []
    rows = expected_rows(m, rate)
    V = f"rinex{m['fmt']}"
    if p is None:
        if not rows and err == "ERR:no-rows":
            return []
        return [(f"{V}:raises", f"the parser raised on a well-formed file ({err})")]
    d = p.as_dict()
    n = len(rows)
    if not rows:
        return [(f"{V}:rows-from-nothing", "rows parsed although the sampling rate keeps no epoch")] if d.get("time") else []
    # --- one row per (epoch, satellite) in file order
    got_time = list(d.get("time", []))
    got_sat = list(d.get("text", {}).get("satellite", []))
    if len(got_time) != n or len(got_sat) != n:
        sub = "decimated" if rate else "all-epochs"
        if rate and len(got_time) != n:
            sub = f"decimated:{'decimal' if Fraction(str(rate)).denominator not in (1, 2, 4, 8) else 'dyadic'}-rate"
        if m["fmt"] == 2 and any(all(o == ["", "", ""] for o in s_["obs"][j:j + 5]) for e_ in kept_epochs(m, rate) for s_ in e_["sats"]
                                 for j in range(0, len(s_["obs"]), 5)):
            sub = "all-blank-observation-line"
        out.append((f"{V}:row-count:{sub}", f"{len(got_time)} rows parsed, the file has {n} (epoch, satellite) records"
                    + (f" on the {rate} s grid" if rate else "")))
        return out
    if got_time != [r["time"] for r in rows]:
        k = next(i for i in range(n) if got_time[i] != rows[i]["time"])
        out.append((f"{V}:epoch", f"row {k}: epoch {got_time[k]} parsed, file says {rows[k]['time']}"))
    if got_sat != [r["sat"] for r in rows]:
        k = next(i for i in range(n) if got_sat[i] != rows[k if False else i]["sat"])
        out.append((f"{V}:satellite-order", f"row {k}: satellite {got_sat[k]} parsed, file says {rows[k]['sat']}"))
    text = d["text"]
    if [str(x) for x in text["system"]] != [r["sat"][0] for r in rows]:
        out.append((f"{V}:system", "system column differs from the satellites' system letters"))
    if [int(x) for x in text["satnum"]] != [int(r["sat"][1:]) for r in rows]:
        out.append((f"{V}:satnum", "satnum column differs from the satellites' numbers"))
    if any(x != m["marker_name"].strip().lower() for x in text["station"]):
        out.append((f"{V}:station", "station column is not the lower-cased marker name"))
    # --- equal column lengths
    for grp in ("obs", "cycle_slip", "signal_strength"):
        for t, col in d[grp].items():
            if len(col) != n:
                out.append((f"{V}:column-length", f"{grp}[{t}] has {len(col)} entries for {n} rows"))
                return out
    for f in ("epoch_flag", "rcv_clk_offset"):
        if len(d[f]) != n:
            out.append((f"{V}:column-length", f"{f} has {len(d[f])} entries for {n} rows"))
            return out
    # --- values, LLI, SNR per type; absent for undefined types
    all_types: List[str] = []
    for r in rows:
        for t in r["obs"]:
            if t not in all_types:
                all_types.append(t)
    for t in all_types:
        exp = [[fl(r["obs"][t][j]) if t in r["obs"] else None for r in rows] for j in range(3)]
        for j, grp in enumerate(("obs", "cycle_slip", "signal_strength")):
            if t not in d[grp]:
                if any(v is not None for v in exp[0]):
                    out.append((f"{V}:type-missing", f"{grp}[{t}] missing although the file has values for it"))
                continue
            got = col_floats(d[grp][t])
            if got != exp[j]:
                k = next(i for i in range(n) if got[i] != exp[j][i])
                what = ["value", "loss-of-lock flag", "signal strength"][j]
                defined = t in rows[k]["obs"]
                key = f"{V}:{['value', 'lli', 'snr'][j]}" + ("" if defined else ":undefined-type-not-absent")
                out.append((key, f"row {k} ({rows[k]['sat']} at {rows[k]['time']}) type {t}: {what} parsed as {got[k]}, file says {exp[j][k]}"))
    for t in d["obs"]:
        if t not in all_types:
            out.append((f"{V}:type-spurious", f"obs[{t}] present although no record defines it"))
    # --- clock offset, epoch flag
    if col_floats(d["rcv_clk_offset"]) != [fl(r["clk"]) for r in rows]:
        out.append((f"{V}:rcv_clk_offset", "receiver clock offset column differs from the epoch records"))
    if [int(x) for x in d["epoch_flag"]] != [r["flag"] for r in rows]:
        out.append((f"{V}:epoch_flag", "epoch flag column differs from the epoch records"))
    # --- header
    meta = p.meta
    if [float(x) for x in np.asarray(d.get("pos", [])).tolist()] != [float(Fraction(x)) for x in m["pos"]]:
        out.append((f"{V}:pos", f"header position {d.get('pos')} != file's {m['pos']}"))
    for k in ("marker_name", "marker_number", "observer", "agency", "receiver_number", "receiver_type", "receiver_version",
              "antenna_number", "antenna_type", "program", "run_by", "file_created"):
        if meta.get(k) != m[k].strip():
            out.append((f"{V}:meta:{k}", f"meta[{k}] = {meta.get(k)!r}, file says {m[k].strip()!r}"))
    for k, v in zip(("antenna_height", "antenna_east", "antenna_north"), m["delta_hen"]):
        if meta.get(k) != float(Fraction(v)):
            out.append((f"{V}:meta:{k}", f"meta[{k}] = {meta.get(k)!r}, file says {v}"))
    if meta.get("time_first_obs") != time_string(m["time_first"]):
        out.append((f"{V}:meta:time_first_obs", f"time_first_obs {meta.get('time_first_obs')!r} != {time_string(m['time_first'])!r}"))
    recs = records3(m) if m["fmt"] == 3 else records2(m)
    recs = recs[:next(i for i, (k, _) in enumerate(recs) if k == "EOH")]  # the header (special records of event epochs are no header comments)
    if m["comments"] and meta.get("comment") != [c[0].strip() for k, c in recs if k == "COM"]:
        out.append((f"{V}:meta:comment", "header comments differ"))
    # --- per-system observation-type lists: the declared types that carry at least one value for that system
    exp_types: Dict[str, List[str]] = {}
    for r in rows:
        s = r["sat"][0]
        decl = m["obstypes"][s] if m["fmt"] == 3 else m["obstypes"]
        exp_types.setdefault(s, list(decl))
    if m["fmt"] == 3:
        for s in list(exp_types):
            exp_types[s] = [t for t in exp_types[s] if any(r["obs"][t][0] is not None for r in rows if r["sat"][0] == s)]
    else:
        alive = [t for t in m["obstypes"] if any(r["obs"][t][0] is not None for r in rows)]
        for s in list(exp_types):
            exp_types[s] = list(alive)
        if not alive:
            exp_types = {}
    got_types = {k: list(v) for k, v in meta.get("obstypes", {}).items()}
    if got_types != exp_types:
        out.append((f"{V}:meta:obstypes", f"obstypes {got_types} != file's {exp_types}"))
    # --- dataset
    out += [(f"{V}:{k}", w) for k, w in dataset_consistent(p)]
    try:
        ds = p.as_dataset()
        for k, (t, r) in enumerate(zip(np.atleast_1d(ds.time.datetime), rows)):
            y, mo, dd = (int(x) for x in r["time"][:10].split("-"))
            hh, mi = int(r["time"][11:13]), int(r["time"][14:16])
            exact = Fraction(micros(_dt.datetime(y, mo, dd, hh, mi))) + Fraction(r["time"][17:]) * 10**6
            # a datetime holds whole microseconds: the nearest one is the best it can do (a 100 ns digit of 5 may go either way:
            # the code adds timedelta(milliseconds=<float>)); anything further off - truncation of the 100 ns digit - is a wrong epoch
            if abs(Fraction(micros(t)) - exact) > Fraction(1, 2):
                out.append((f"{V}:dataset-time", f"row {k}: dataset epoch {t} is not the file's {r['time']} rounded to the nearest microsecond"))
                break
    except Exception:
        pass
    return out


# ================================================================================================

def model_parse(drv, fmt: int, text: str, rate) -> Any:
    r = "-" if not rate else rs(Fraction(str(rate)))
    return parse_model_out(drv.ask1(f"c11 parse{fmt} {r} " + hexs(text)))


def compare_model_impl(ctx: Ctx, name: str, case, model: Any, impl: Any):
    """model / impl: an error string or the canonical token dictionary"""
    if isinstance(model, str) or isinstance(impl, str):
        if model != impl:
            ctx.disagree(name, case, model if isinstance(model, str) else "a value", impl if isinstance(impl, str) else "a value")
    else:
        diffs = compare_outputs(model, impl)
        if diffs:
            ctx.disagree(name, {**case, "paths": diffs[:8]},
                         {k.split(":", 1)[1]: str(model.get(k.split(":", 1)[1]))[:200] for k in diffs[:4]},
                         {k.split(":", 1)[1]: str(impl.get(k.split(":", 1)[1]))[:200] for k in diffs[:4]})


def one_text(ctx: Ctx, drv, wd: Workdir, fmt: int, text: str, rate, case, m=None, name=None):
    name = name or f"parse{fmt}(file)"
    p, err, exc = run_impl(wd, fmt, text, rate)
    impl = err if p is None else canon_impl(p)
    if drv is not None:
        compare_model_impl(ctx, name, case, model_parse(drv, fmt, text, rate), impl)
    if m is not None:
        for key, what in oracle(m, p, err, rate):
            ctx.violate(key, what, {**case, "model": m, "rate": rate, "file_text": text})
    return p


def check_render(ctx: Ctx, drv, m, text: str, i: int):
    if drv is None:
        return
    recs = records3(m) if m["fmt"] == 3 else records2(m)
    ans = drv.ask1(f"c11 render{m['fmt']} " + records_line(recs))
    want = style_lines([write_record(k, c) for k, c in recs], "asis")
    got = unhex(ans) if ans != "bad-op" else ans
    if got != want:
        gl, wl = got.split("\n"), want.split("\n")
        bad = next((k for k, (x, y) in enumerate(zip(gl, wl)) if x != y), -1)
        ctx.disagree(f"render{m['fmt']}(model) = independent writer", {"i": i, "line": bad, "kind": recs[bad][0] if 0 <= bad < len(recs) else "?"},
                     gl[bad] if bad >= 0 else got[:80], wl[bad] if bad >= 0 else want[:80])


# ================================================================================================
# the abstract file of the file-level theorem (Spec/Rinex3ObsFile.lean, `c11 file3`)

FILE3_CELLS = {"VER3": 3, "PGM": 3, "COM": 1, "MNUM": 1, "MTYPE": 1, "OBSAG": 2, "REC": 3, "ANT": 2, "POS": 3, "DHEN": 3, "DXYZ": 3,
               "SSU": 1, "INTERVAL": 1, "TFIRST": 7, "TLAST": 7, "RCVCLK": 1, "DCBS": 3, "PCVS": 3, "LEAP3": 5, "NSAT": 1}


def gen_file3_model(rng, thorough: bool) -> Dict[str, Any]:
    """gen_file3 within the record kinds of the theorem's file model (GLONASS slot / bias records with one cell per slot/frequency
    resp. type/bias pair, phase-shift records with the satellite list as one cell; comment texts without leading blanks: a cell of
    the abstract file has no outer blanks), every epoch with its flag (0, or 1 = power failure between the previous and this epoch:
    the observation records follow as for flag 0)"""
    m = gen_file3(rng, thorough)
    m["comments"] = [(p, t.strip()) for p, t in m["comments"]]
    m["hdr_shuffle"] = rng.randrange(1 << 30) if rng.random() < 0.4 else None
    for ep in m["epochs"]:
        ep["flag"] = "1" if rng.random() < 0.15 else "0"
    sprinkle_sub_us(rng, m)
    midnight_epoch(rng, m)
    if rng.random() < 0.25:
        insert_event_epochs(rng, m)
    return m


NONBLANK = TEXT.replace(" ", "")


def gen_special_records(rng) -> List[Tuple[str, List[str]]]:
    """special records of an event epoch: header records (cells without outer blanks), `# OF SATELLITES` included;
    comment texts sometimes with four digits in columns 3-6, where the epoch record has its year"""
    recs: List[Tuple[str, List[str]]] = []
    if rng.random() < 0.85:
        k = rng.random()
        if k < 0.4:
            t = (rng.choice(NONBLANK) + rng.choice(TEXT) + f"{rng.choice([2018, 1999, 0, rng.randint(0, 9999)]):04d}" + rng.choice(["", " moved", " "]) + rtext(rng, 20)).strip()
        else:
            t = rtext(rng, 60)
        recs.append(("COM", [t]))
    if rng.random() < 0.4:
        recs.append(("MNAME", [rng.choice(["NEW1", "AB2018", "x", "A 9080"])]))
    if rng.random() < 0.4:
        recs.append(("DHEN", [fixed(rng, -10, 10, 4, True) for _ in range(3)]))
    if rng.random() < 0.15:
        recs.append(("ANT", [rtext(rng, 20), rng.choice(["TRM55971.00     NONE", ""])]))
    if rng.random() < 0.25:
        recs.append(("NSAT", [str(rng.randint(1, 120))]))  # label starts with '#': columns 3-6 of the line hold a number
    if not recs and rng.random() < 0.7:
        recs.append(("COM", ["event"]))
    return recs


def insert_event_epochs(rng, m):
    """1-2 event epochs (flag 2-5, no satellites, special records instead) after a normal epoch, at a time no other epoch has"""
    used = {(tuple(ep["date"][:5]), Fraction(ep["date"][5])) for ep in m["epochs"]}
    for _ in range(rng.randint(1, 2)):
        pos = rng.randint(1, len(m["epochs"]))
        head = list(m["epochs"][pos - 1]["date"][:5])
        for _try in range(20):
            sec = gen_seconds(rng, True)
            if (tuple(head), Fraction(sec)) not in used:
                break
        else:
            continue
        used.add((tuple(head), Fraction(sec)))
        m["epochs"].insert(pos, {"date": head + [sec], "clk": "", "flag": rng.choice("2345"), "sats": [], "special": gen_special_records(rng)})


def opt_cell(text: str) -> str:
    """`<hex text>~<value>`: `nan` for a blank text or one that denotes zero (computed here, never by Lean)"""
    t = text.strip()
    return f"{hexs(t)}~{'nan' if absent(t) else rs(Fraction(t))}"


def int_cell(text: str) -> str:
    t = text.strip()
    return f"{hexs(t)}~{int(t)}"


def file3_tokens(m) -> List[str]:
    """the abstract file of model `m` in file order: header records as records3 puts them (comments included), END OF HEADER
    left to the Lean writer, then epochs and satellite records from m["epochs"]"""
    toks: List[str] = []
    recs = records3(m)
    i = 0
    while recs[i][0] != "EOH":
        k, c = recs[i]
        i += 1
        if k == "SYSOBS":
            lines = [c[2:]]
            while recs[i][0] == "SYSOBSC":
                lines.append(recs[i][1])
                i += 1
            toks.append(f"S:{hexs(c[0].strip())}:{hexs(c[1].strip())}:" + ";".join(",".join(hexs(t.strip()) for t in l) for l in lines))
        elif k == "MNAME":
            toks.append("M:" + hexs(c[0].strip()))
        elif k in ("GSLOT", "GSLOTC"):
            head, pairs = ([c[0].strip()], c[1:]) if k == "GSLOT" else ([""], c)
            cells = head + [f"{pairs[j]:<3} {pairs[j + 1]:>2}".strip() for j in range(0, len(pairs), 2)]
            toks.append("P:GSLOTP:" + ",".join(hexs(x) for x in cells + [""] * (9 - len(cells))))
        elif k == "GBIAS":
            cells = [f"{c[j]:<3} {c[j + 1]:>8}".strip() for j in range(0, len(c), 2)]
            toks.append("P:GBIASP:" + ",".join(hexs(x) for x in cells + [""] * (4 - len(cells))))
        elif k in ("PSHIFT", "PSHIFTC"):
            # system, type, correction, count, then the satellite list as the parser cuts it: one field of 40 columns
            head, sats = ([x.strip() for x in c[:4]], c[4:]) if k == "PSHIFT" else ([""] * 4, c)
            toks.append("P:PSHIFTP:" + ",".join(hexs(x) for x in head + [" ".join(f"{x:<3}" for x in sats).strip()]))
        else:
            if FILE3_CELLS.get(k) != len(c):
                raise ValueError(f"record {k} with {len(c)} cells is outside the file model")
            toks.append(f"P:{k}:" + ",".join(hexs(x.strip()) for x in c))
    p = m["month_pad"]
    two = (lambda x: f"{x:02d}") if p == "0" else (lambda x: f"{x:2d}")
    for ep in m["epochs"]:
        y, mo, d, h, mi, s = ep["date"]
        sec = s.strip()
        toks.append("E:" + ",".join([int_cell(str(y)), int_cell(two(mo)), int_cell(two(d)), int_cell(two(h)), int_cell(two(mi)),
                                     f"{hexs(sec)}~{rs(Fraction(sec))}", int_cell(ep.get("flag", "0")),
                                     hexs(str(len(ep["sats"]) if ep.get("special") is None else len(ep["special"]))), opt_cell(ep["clk"])]))
        for k, c in ep.get("special") or []:
            if {**FILE3_CELLS, "MNAME": 1}.get(k) != len(c):
                raise ValueError(f"special record {k} with {len(c)} cells is outside the file model")
            toks.append(f"X:{k}:" + ",".join(hexs(x.strip()) for x in c))
        for sat in ep["sats"]:
            toks.append(f"R:{hexs(sat['sat'])}:" + ";".join(",".join(opt_cell(x) for x in o) for o in sat["obs"]))
    return toks


def parse_file3_answer(ans: str) -> Optional[Dict[str, Any]]:
    """`wf=<0|1> inst=<0|1> text=<hex> | <out>` -> {"wf", "inst", "text", "out"}; None for a malformed answer"""
    head, sep, out = ans.partition(" | ")
    kv = dict(t.partition("=")[::2] for t in head.split())
    if not sep or set(kv) != {"wf", "inst", "text"}:
        return None
    return {"wf": kv["wf"], "inst": kv["inst"], "text": unhex(kv["text"]), "out": parse_model_out(out.strip())}


def first_diff_line(got: str, want: str) -> Tuple[int, str, str]:
    gl, wl = got.split("\n"), want.split("\n")
    k = next((j for j, (x, y) in enumerate(zip(gl, wl)) if x != y), min(len(gl), len(wl)))
    return k, (gl[k] if k < len(gl) else "<end of text>"), (wl[k] if k < len(wl) else "<end of text>")


def stats_file3_glonass(ctx, m):
    for _s, _t, _corr, sats in m.get("phase_shift") or []:
        ctx.count("file3 phase-shift record" + (" with continuation" if len(sats) > 10 else " without satellites" if not sats else ""))
    if m.get("glonass_slot"):
        ctx.count("file3 GLONASS slot record" + (" with continuation" if len(m["glonass_slot"]) > 8 else ""))
    if m.get("glonass_bias") is not None:
        ctx.count("file3 GLONASS bias record")


def stats_file3(ctx: Ctx, m, rate):
    ctx.count("file3")
    if m.get("hdr_shuffle") is not None:
        ctx.count("file3 header records in random order")
    for ep in m["epochs"]:
        sec = ep["date"][5].strip()
        if ep["date"][3:] == [0, 0, "0.0000000"]:
            ctx.count("file3 epoch at midnight")
        if sec[-1] != "0":
            ctx.count(f"file3 epoch with 100 ns digit {sec[-1]}")
            if sec.startswith("59.999999") and sec[-1] in "56789":
                ctx.count(f"file3 epoch rolling over on rounding to the microsecond")
    ctx.count(f"file3 style={m['style']}")
    ctx.count("file3 rate=" + ("none" if rate is None else "set"))
    ctx.count(f"file3 systems={len(m['obstypes'])}")
    ctx.count(f"file3 epochs={min(len(m['epochs']), 9)}")
    for s, ts in m["obstypes"].items():
        if len(ts) > 13:
            ctx.count("file3 types>13 (header continuation)")
    if m["empty_systems"]:
        ctx.count("file3 declared-but-empty system", len(m["empty_systems"]))
    if m["comments"]:
        ctx.count("file3 comment record", len(m["comments"]))
    kept = kept_epochs(m, rate)
    for ep in m["epochs"]:
        if ep.get("special") is not None:
            ctx.count("file3 event epoch")
            ctx.count(f"file3 event epoch flag={ep['flag']}")
            if ep["special"]:
                ctx.count("file3 special record", len(ep["special"]))
            for k, c in ep["special"]:
                if k == "COM" and c[0][2:6].isdigit():
                    ctx.count("file3 special comment with digits in the year columns")
            continue
        if ep.get("flag", "0") == "1":
            ctx.count("file3 epoch flag=1")
        if not any(ep is k for k in kept):
            ctx.count("file3 decimated epoch")
        for sat in ep["sats"]:
            for o in sat["obs"]:
                if o[0] == "":
                    ctx.count("file3 blank observation")
                elif absent(o[0]):
                    ctx.count("file3 zero observation")


def one_file3(ctx: Ctx, drv, wd: Workdir, m, rate, i: int):
    """abstract file F of `m`: render(F) is the independent writer's text, wf(F), the theorem instance
    readData(fileLines F) = expected F, and expected(F) after the post-processors is what the real parser delivers for that text"""
    text = write_file(m)
    case = {"file3": True, "i": i, "rate": rate, "style": m["style"]}
    cont = any(len(v) > 13 for v in m["obstypes"].values())
    flagged = any(ep.get("flag", "0") != "0" for ep in m["epochs"])
    ctx.case(common.digest([text, rate, "file3"]),
             nontrivial=(max(len(e["sats"]) for e in m["epochs"]) >= 2 and (cont or rate is not None or flagged)))
    stats_file3(ctx, m, rate)
    stats_file3_glonass(ctx, m)
    p, err, exc = run_impl(wd, 3, text, rate)
    impl = err if p is None else canon_impl(p)
    if drv is not None:
        r = "-" if not rate else rs(Fraction(str(rate)))
        toks = file3_tokens(m)
        raw = drv.ask1(f"c11 file3 {r} {m['style']} " + " ".join(toks))
        ans = None if raw == "bad-op" else parse_file3_answer(raw)
        if ans is None:
            ctx.disagree("file3: request understood by the driver", {**case, "tokens": toks[:40]}, raw[:200], "wf=… inst=… text=… | …")
        else:
            if ans["text"] != text:
                k, g, w = first_diff_line(ans["text"], text)
                ctx.disagree("render(F) = independent writer (file3)", {**case, "line": k}, g, w)
            if ans["wf"] != "1":
                ctx.disagree("file3: wf(F)", {**case, "tokens": toks[:60], "file_text": text}, f"wf={ans['wf']}", "wf=1 (the generator writes well-formed files)")
            if ans["inst"] != "1":
                ctx.disagree("file3: theorem instance readData(fileLines F) = expected F", {**case, "tokens": toks[:60], "file_text": text},
                             f"inst={ans['inst']}", "inst=1")
            compare_model_impl(ctx, "expected(F) = real parser (file3)", case, ans["out"], impl)
    for key, what in oracle(m, p, err, rate):
        ctx.violate(key, what, {**case, "model": m, "rate": rate, "file_text": text})
    return p


# ================================================================================================
# the abstract RINEX 2 file (Spec/Rinex2ObsFile.lean, `c11 file2`)

FILE2_CELLS = {"VER2": 3, "PGM": 3, "COM": 1, "MNAME": 1, "MNUM": 1, "OBSAG": 2, "REC": 3, "ANT": 2, "POS": 3, "DHEN": 3, "WAVE": 10,
               "TYPES2": 10, "TYPES2C": 9, "INTERVAL": 1, "TFIRST": 7, "TLAST": 7, "RCVCLK": 1, "LEAP2": 1, "NSAT": 1}


def sprinkle_sub_us(rng, m, ctx_count=None):
    """epochs with a non-zero 100 ns digit (every digit 1-9), incl. 59.9999995 ... 59.9999999 at the end of a minute / hour / day /
    month / year, where rounding to the microsecond of the Dataset time rolls over"""
    import calendar
    if rng.random() > 0.4:
        return
    used = {tuple(ep["date"]) for ep in m["epochs"]}
    for ep in rng.sample(m["epochs"], min(len(m["epochs"]), rng.randint(1, 3))):
        y, mo, d, h, mi, _ = ep["date"]
        k = rng.random()
        if k < 0.5:
            sec = f"{rng.randint(0, 59)}.{rng.randint(0, 999999):06d}{rng.randint(1, 9)}"
        else:
            sec = f"59.999999{rng.randint(5, 9)}"
            end = rng.random()
            if end < 0.75:
                mi = 59
            if end < 0.5:
                h = 23
            if end < 0.3:
                d = calendar.monthrange(y, mo)[1]
            if end < 0.15:
                mo, d = 12, 31
        new = [y, mo, d, h, mi, sec]
        if tuple(new) in used:
            continue
        used.discard(tuple(ep["date"]))
        used.add(tuple(new))
        ep["date"] = new
    m["has_sub_us"] = True


def midnight_epoch(rng, m):
    """an epoch at exactly 00:00:00.0000000 (seconds of day 0)"""
    if rng.random() > 0.15:
        return
    ep = rng.choice(m["epochs"])
    y, mo, d, _, _, _ = ep["date"]
    new = [y, mo, d, 0, 0, "0.0000000"]
    if all(tuple(e["date"]) != tuple(new) for e in m["epochs"]):
        ep["date"] = new


def gen_file2_model(rng, thorough: bool) -> Dict[str, Any]:
    """gen_file2 with comment texts without leading blanks (a cell of the abstract file has no outer blanks) and every epoch with
    its flag (0, or 1 = power failure between the previous and this epoch: the observation records follow as for flag 0)"""
    m = gen_file2(rng, thorough)
    m["comments"] = [(p, t.strip()) for p, t in m["comments"]]
    m["hdr_shuffle"] = rng.randrange(1 << 30) if rng.random() < 0.4 else None
    for ep in m["epochs"]:
        ep["flag"] = "1" if rng.random() < 0.15 else "0"
    sprinkle_sub_us(rng, m)
    midnight_epoch(rng, m)
    return m


def file2_tokens(m) -> List[str]:
    """the abstract file of model `m` in file order: every header record as records2 puts it (comments, MARKER NAME, # / TYPES OF
    OBSERV with continuation records; short records padded with empty cells to the field count of the kind), END OF HEADER left
    to the Lean writer, then epochs and satellite records from m["epochs"] (satellite identifiers as printed, not stripped)"""
    toks: List[str] = []
    for k, c in records2(m):
        if k == "EOH":
            break
        n = FILE2_CELLS.get(k)
        if n is None or len(c) > n:
            raise ValueError(f"record {k} with {len(c)} cells is outside the file model")
        cells = [x.strip() for x in c] + [""] * (n - len(c))
        toks.append(f"P:{k}:" + ",".join(hexs(x) for x in cells))
    for ep in m["epochs"]:
        y, mo, d, h, mi, s = ep["date"]
        sec = s.strip()
        toks.append("E:" + ",".join([int_cell(f"{y % 100:02d}"), int_cell(str(mo)), int_cell(str(d)), int_cell(str(h)), int_cell(str(mi)),
                                     f"{hexs(sec)}~{rs(Fraction(sec))}", int_cell(ep.get("flag", "0")), hexs(str(len(ep["sats"]))),
                                     opt_cell(ep["clk"])]))
        for sat in ep["sats"]:
            id3 = sat2(m, sat["sat"])
            if len(id3) != 3:
                raise ValueError(f"satellite identifier {id3!r} is outside the file model")
            toks.append(f"R:{hexs(id3)}:" + ";".join(",".join(opt_cell(x) for x in o) for o in sat["obs"]))
    return toks


def blank_lines2(sat) -> int:
    """observation lines (5 observations each) of one satellite record that are entirely blank"""
    obs = sat["obs"]
    return sum(1 for j in range(0, len(obs), 5) if all(o == ["", "", ""] for o in obs[j:j + 5]))


def stats_file2(ctx: Ctx, m, rate):
    ctx.count("file2")
    if m.get("hdr_shuffle") is not None:
        ctx.count("file2 header records in random order")
    for ep in m["epochs"]:
        sec = ep["date"][5].strip()
        if ep["date"][3:] == [0, 0, "0.0000000"]:
            ctx.count("file2 epoch at midnight")
        if sec[-1] != "0":
            ctx.count(f"file2 epoch with 100 ns digit {sec[-1]}")
            if sec.startswith("59.999999") and sec[-1] in "56789":
                ctx.count(f"file2 epoch rolling over on rounding to the microsecond")
    ctx.count(f"file2 style={m['style']}")
    ctx.count("file2 rate=" + ("none" if rate is None else "set"))
    ctx.count(f"file2 epochs={min(len(m['epochs']), 9)}")
    if len(m["obstypes"]) > 9:
        ctx.count("file2 types>9 (header continuation)")
    if len(m["obstypes"]) > 5:
        ctx.count("file2 types>5 (data continuation)")
    if m["blank_sys"]:
        ctx.count("file2 blank system id")
    if m["wave_fact"]:
        ctx.count("file2 wavelength record", 2 if m["wave_fact"]["prn"] else 1)
    if m["comments"]:
        ctx.count("file2 comment record", len(m["comments"]))
    kept = kept_epochs(m, rate)
    for ep in m["epochs"]:
        if len(ep["sats"]) > 12:
            ctx.count("file2 sats>12 (satellite-list continuation)")
        if ep.get("flag", "0") == "1":
            ctx.count("file2 epoch flag=1")
        if not any(ep is k for k in kept):
            ctx.count("file2 decimated epoch")
        for sat in ep["sats"]:
            nb = blank_lines2(sat)
            if nb:
                ctx.count("file2 all-blank observation line", nb)
            if sat2(m, sat["sat"])[1] == " ":
                ctx.count("file2 'G 7' numbering")


def one_file2(ctx: Ctx, drv, wd: Workdir, m, rate, i: int):
    """abstract RINEX 2 file F of `m`: render2(F) is the independent writer's text, wf(F), the instance
    readData(fileLines F) = expected F, and expected2(F) after the post-processors is what the real parser delivers for that text"""
    text = write_file(m)
    case = {"file2": True, "i": i, "rate": rate, "style": m["style"]}
    cont = len(m["obstypes"]) > 5 or any(len(e["sats"]) > 12 for e in m["epochs"])
    flagged = any(ep.get("flag", "0") != "0" for ep in m["epochs"])
    ctx.case(common.digest([text, rate, "file2"]),
             nontrivial=(max(len(e["sats"]) for e in m["epochs"]) >= 2 and (cont or rate is not None or flagged)))
    stats_file2(ctx, m, rate)
    p, err, exc = run_impl(wd, 2, text, rate)
    impl = err if p is None else canon_impl(p)
    if drv is not None:
        r = "-" if not rate else rs(Fraction(str(rate)))
        toks = file2_tokens(m)
        raw = drv.ask1(f"c11 file2 {r} {m['style']} " + " ".join(toks))
        ans = None if raw == "bad-op" else parse_file3_answer(raw)
        if ans is None:
            ctx.disagree("file2: request understood by the driver", {**case, "tokens": toks[:40]}, raw[:200], "wf=… inst=… text=… | …")
        else:
            if ans["text"] != text:
                k, g, w = first_diff_line(ans["text"], text)
                ctx.disagree("render2(F) = independent writer (file2)", {**case, "line": k}, g, w)
            if ans["wf"] != "1":
                ctx.disagree("file2: wf(F)", {**case, "tokens": toks[:60], "file_text": text}, f"wf={ans['wf']}", "wf=1 (the generator writes well-formed files)")
            if ans["inst"] != "1":
                ctx.disagree("file2: instance readData(fileLines F) = expected F", {**case, "tokens": toks[:60], "file_text": text},
                             f"inst={ans['inst']}", "inst=1")
            compare_model_impl(ctx, "expected2(F) = real parser (file2)", case, ans["out"], impl)
    for key, what in oracle(m, p, err, rate):
        ctx.violate(key, what, {**case, "model": m, "rate": rate, "file_text": text})
    return p


def pick_rate(rng, m, decimal: bool = False):
    if decimal:
        return rng.choice(DECIMAL_RATES)
    k = rng.random()
    if k < 0.55:
        return None
    return rng.choice(DYADIC_RATES + DECIMAL_RATES[:2])


def run(ctx: Ctx):
    from translator import extract_rinex_obs

    extract_rinex_obs.main()
    ctx.proof = common.prove("C11")
    rng = ctx.rng
    wd = Workdir()
    try:
        drv = ctx.driver
    except common.ToolFailure:
        drv = None
        ctx.proof.failed.append("driver drv_c11 does not build")
        ctx.proof.ok = False
    ctx.rule = ("random RINEX 3 (1-4 constellations, 1-30 types per system with header continuation lines, declared-but-empty systems, "
                "phase-shift / GLONASS slot / bias / DCBS / PCVS / leap-second records) and RINEX 2 (1-26 types with header and data "
                "continuation lines, 1-40 satellites with satellite-list continuation, blank system identifiers, 'G 7' numbering) models; "
                "values blank / zero / negative / full-width / Fortran '.300', LLI and SNR digits, sub-second epochs, receiver clock offsets, "
                "header comments, lines stripped / padded to 80 / as formatted, sampling rates (none, dyadic; decimal rates in a separate "
                "oracle-only block); written by an independent Python writer; non-trivial = at least two satellites and a continuation "
                "line (header or data) or a sampling rate; distinct by file text + rate. "
                "Block file3: RINEX 3 models as the theorem's abstract file (Spec/Rinex3ObsFile.lean: every header record of the writer, "
                "phase-shift records with the satellite list as one cell and GLONASS slot / bias records with one cell per pair, comments without leading blanks; in 40 % of the "
                "files the header records after the version record in a random order that keeps a SYS / # / OBS TYPES record with its continuation lines together and the order inside "
                "each family of records), epoch flag 0 or 1 (15 %), in 25 % of the files 1-2 event epochs (flag 2-5 followed by "
                "special records COMMENT / MARKER NAME / ANTENNA: DELTA H/E/N / ANT # / TYPE instead of satellites), are handed to the driver "
                "as the abstract file F (cells as printed + the values computed here with Fraction): render(F) must be the independent writer's "
                "text byte for byte, wf(F) and the theorem instance readData(fileLines F) = expected F must hold, expected(F) after the "
                "post-processors must be the real parser's output for that text, and the oracle compares the parser with the model; "
                "non-trivial there = two satellites and a header continuation line, a sampling rate or a flagged epoch. "
                "Block file2: the same for RINEX 2 models (every header record of the writer incl. wavelength factors and # / TYPES OF "
                "OBSERV continuation, comments without leading blanks, in 40 % of the files the header records after the version record in a random order that only keeps "
                "the order inside a family - comments between # / TYPES OF OBSERV and its continuation records included -, epoch flag 0 or 1 (15 %), satellite identifiers as printed: 'G07', "
                "' 07', 'G 7') as the abstract file of Spec/Rinex2ObsFile.lean: render2(F) = writer's text byte for byte, wf(F), the "
                "instance readData(fileLines F) = expected F, expected2(F) after the post-processors = the real parser's output, and the "
                "oracle; non-trivial there = two satellites and a data / satellite-list continuation line, a sampling rate or a flagged epoch")
    ctx.trusted += ["float(text) is correctly rounded (CPython); the model keeps exact decimals, the harness compares float(Fraction)",
                    "'{:010.7f}'.format(float(second)) of a 7-decimal text reproduces the text (measured on every epoch)",
                    "the sampling test |obs_sec - round(obs_sec/rate)*rate| >= 5e-8 is modelled in exact rationals; the double computation "
                    "differs by ~1e-11 s, far below the margin for epochs and rates printed with 7 decimals (measured on every epoch)",
                    "as_dataset(): Dataset/Time internals are not modelled; its time column is compared to 1 us, its other columns with as_dict()"]
    ctx.assumptions += ["well-formed = RINEX 3.04 / 2.11 record order and columns, epoch flag 0 (event records are refused by log.fatal), time system GPS, "
                        "TIME OF FIRST OBS and MARKER NAME present, RINEX 2 files within one year and century of TIME OF FIRST OBS"]
    try:
        corpus = common.VERIF / "corpus" / "C11"
        if corpus.is_dir():
            for f in sorted(corpus.glob("*.rnx")):
                text = f.read_text()
                fmt = 2 if f.name.startswith("rinex2") else 3
                rates = [None] + [float(x.split("=")[1]) for x in f.name.split(".rate")[1:2] and [f.name[f.name.index("rate="):].rsplit(".", 1)[0]]]
                for rate in rates:
                    case = {"corpus": f.name, "rate": rate}
                    ctx.case(case)
                    ctx.count("corpus")
                    one_text(ctx, drv, wd, fmt, text, rate, case)
                    corpus_facts(ctx, wd, f.name, fmt, text, rate)
        for fmt, name in ((3, "rinex3_obs"), (2, "rinex2_obs")):
            ex = common.REPO / "tests" / "parsers" / "example_files" / name
            if ex.exists():
                text = ex.read_text()
                if fmt == 2 and not ctx.thorough:
                    text = head_epochs2(text, 40)  # the 1 MB example in full only in the thorough tier
                for rate in (None, 300 if fmt == 3 else 60):
                    case = {"example_file": name, "rate": rate}
                    ctx.case(case)
                    ctx.count("example file")
                    one_text(ctx, drv, wd, fmt, text, rate, case)
                if fmt == 2:
                    blank_continuation_probe(ctx, drv, wd, text)
        n = ctx.budget(200, 2500)
        for fmt in (3, 2):
            for i in range(n):
                m = gen_file3(rng, ctx.thorough) if fmt == 3 else gen_file2(rng, ctx.thorough)
                text = write_file(m)
                rate = pick_rate(rng, m)
                case = {"fmt": fmt, "i": i, "rate": rate}
                cont = (any(len(v) > 13 for v in m["obstypes"].values()) if fmt == 3 else len(m["obstypes"]) > 5 or any(len(e["sats"]) > 12 for e in m["epochs"]))
                ctx.case(common.digest([text, rate]), nontrivial=(max(len(e["sats"]) for e in m["epochs"]) >= 2 and (cont or rate is not None)))
                stats(ctx, m, rate)
                check_render(ctx, drv, m, text, i)
                one_text(ctx, drv, wd, fmt, text, rate, case, m)
                if fmt == 3 and i % 10 == 0:
                    convert_unit_probe(ctx, wd, m, text, case)
        # decimal sampling rates on sub-second epoch grids (epochs on and one 1e-7 s step off the grid)
        for fmt in (3, 2):
            for i in range(ctx.budget(10, 150)):
                m = gen_file3(rng, False) if fmt == 3 else gen_file2(rng, False)
                rate = pick_rate(rng, m, decimal=True)
                regrid(rng, m, rate)
                text = write_file(m)
                case = {"fmt": fmt, "i": i, "rate": rate, "decimal_rate": True}
                ctx.case(common.digest([text, rate]))
                ctx.count("decimal sampling rate")
                one_text(ctx, drv, wd, fmt, text, rate, case, m)
        # the abstract RINEX 3 file of the file-level theorem (Spec/Rinex3ObsFile.lean): render, wf, theorem instance, expected
        for i in range(ctx.budget(120, 400)):
            m = gen_file3_model(rng, ctx.thorough)
            one_file3(ctx, drv, wd, m, pick_rate(rng, m), i)
        # the abstract RINEX 2 file (Spec/Rinex2ObsFile.lean): render2, wf, instance, expected2
        for i in range(ctx.budget(100, 400)):
            m = gen_file2_model(rng, ctx.thorough)
            one_file2(ctx, drv, wd, m, pick_rate(rng, m), i)
    finally:
        wd.close()
    ctx.traces = ctx.evaluations


# carrier frequencies in MHz by system and RINEX band number (RINEX 3.04 table 4 ff., typed independently of midgard.collections.enums)
FREQ_MHZ = {"G": {"1": "1575.42", "2": "1227.60", "5": "1176.45"},
            "E": {"1": "1575.42", "5": "1176.45", "7": "1207.140", "8": "1191.795", "6": "1278.75"},
            "C": {"1": "1575.42", "2": "1561.098", "5": "1176.45", "7": "1207.140", "8": "1191.795", "6": "1268.52"},
            "J": {"1": "1575.42", "2": "1227.60", "5": "1176.45", "6": "1278.75"},
            "S": {"1": "1575.42", "5": "1176.45"},
            "I": {"5": "1176.45", "9": "2492.028"}}
C_LIGHT = 299792458


def convert_unit_probe(ctx: Ctx, wd: Workdir, m, text: str, case):
    """convert_unit=True (midgard/gnss/gnss.py obstype_to_freq): phase and Doppler columns of every system but GLONASS are
    scaled by c/f of the type's band for the rows of that system, everything else is untouched (oracle only)"""
    from midgard.parsers.rinex3_obs import Rinex3Parser

    try:
        p0 = Rinex3Parser(wd.path(text)).parse()
        p1 = Rinex3Parser(wd.path(text), convert_unit=True).parse()
    except Exception as e:
        ctx.violate("rinex3:convert_unit:raises", f"convert_unit=True raised {type(e).__name__}: {e}", {**case, "file_text": text})
        return
    d0, d1 = p0.as_dict(), p1.as_dict()
    systems = [str(x) for x in d0["text"]["system"]]
    for t, col in d0["obs"].items():
        raw = col_floats(col)
        got = col_floats(d1["obs"].get(t, []))
        if len(got) != len(raw):
            ctx.violate("rinex3:convert_unit:length", f"{t}: column length changed", {**case, "file_text": text})
            return
        for i, (a, b) in enumerate(zip(raw, got)):
            s_ = systems[i]
            scaled = s_ != "R" and t[0] in "LD" and t in p1.meta["obstypes"].get(s_, [])
            if a is None or not scaled:
                ok = a == b
            else:
                want = Fraction(C_LIGHT) / (Fraction(FREQ_MHZ[s_][t[1]]) * 10**6) * Fraction(a)
                ok = b is not None and abs(Fraction(b) - want) <= Fraction(4, 2**52) * abs(want)
            if not ok:
                ctx.violate("rinex3:convert_unit:" + ("scaled" if scaled else "untouched"),
                            f"row {i} ({systems[i]}) type {t}: {a} became {b} with convert_unit=True", {**case, "file_text": text})
                return
    ctx.count("convert_unit probes")


def corpus_facts(ctx: Ctx, wd: Workdir, name: str, fmt: int, text: str, rate):
    """facts of the corpus files read off the files themselves (the minimised past defects)"""
    p, err, _ = run_impl(wd, fmt, text, rate)
    rows = None if p is None else len(p.as_dict().get("time", []))
    want = {("rinex2_blank_line_and_single_continuation.rnx", None): 13,
            ("rinex3_tenth_second_epochs.rate=0.1.rnx", None): 4,
            ("rinex3_tenth_second_epochs.rate=0.1.rnx", 0.1): 3,
            # event epochs (flag 4, 3) without a date, each followed by special records: ignored as a whole (outside the theorem's
            # abstract file, whose event epochs carry a date; here model = parser is measured)
            ("rinex3_event_epoch_without_date.rnx", None): 3}.get((name, rate))
    if want is not None and rows != want:
        ctx.violate(f"corpus:{name}:rows", f"{name} (rate {rate}): {rows} rows parsed ({err}), the file has {want} records on the grid",
                    {"corpus": name, "rate": rate, "file_text": text})


def regrid(rng, m, rate):
    """put the epochs of a model on a fine decimal grid (some on, some off the sampling grid)"""
    r = Fraction(str(rate))
    y, mo, d, h, mi, _ = m["epochs"][0]["date"]
    k0 = rng.randint(0, 50)
    eps = []
    for j, ep in enumerate(m["epochs"]):
        q = (k0 + j) * r / rng.choice([1, 1, 2]) if rng.random() < 0.8 else (k0 + j) * r + Fraction(1, 10**7)
        if q >= 60:
            break
        ep = dict(ep)
        ep["date"] = [y, mo, d, h, mi, f"{int(q)}.{int((q - int(q)) * 10**7):07d}"]
        eps.append(ep)
    seen = set()
    m["epochs"] = [e for e in eps if not (e["date"][5] in seen or seen.add(e["date"][5]))]
    m["time_first"] = list(m["epochs"][0]["date"])
    if m["time_last"]:
        m["time_last"] = list(m["epochs"][-1]["date"])


def head_epochs2(text: str, n: int) -> str:
    lines = text.split("\n")
    out = []
    k = 0
    hdr = True
    for l in lines:
        if hdr:
            out.append(l)
            if l[60:73] == "END OF HEADER":
                hdr = False
            continue
        if l[2:3].isdigit() and l[3:4] == " ":
            k += 1
            if k > n:
                break
        out.append(l)
    return "\n".join(out) + "\n"


def blank_continuation_probe(ctx: Ctx, drv, wd: Workdir, text: str):
    """the repository's own RINEX 2 example (14 types, 3 lines per satellite) with the third line of one
    satellite blanked: still one row per (epoch, satellite) and the other values in place"""
    text = head_epochs2(text, 3)
    lines = text.rstrip("\n").split("\n")
    h = next(i for i, l in enumerate(lines) if l[60:73] == "END OF HEADER")
    # first epoch: epoch line, continuation line(s), then 3 lines per satellite
    first = h + 1
    nsat = int(lines[first][29:32])
    k = first + 1 + (nsat - 1) // 12
    p0, _, _ = run_impl(wd, 2, "\n".join(lines) + "\n", None)
    target = k + 2  # third line of the first satellite
    lines2 = list(lines)
    lines2[target] = ""
    t2 = "\n".join(lines2) + "\n"
    case = {"example_file": "rinex2_obs", "blanked_line": target}
    ctx.case(case)
    ctx.count("example file, blanked continuation line")
    p1 = one_text(ctx, drv, wd, 2, t2, None, case)
    if p0 is None or p1 is None:
        ctx.violate("rinex2:raises", "the RINEX 2 example (with one blanked continuation line) does not parse", {**case, "file_text": t2})
        return
    d0, d1 = p0.as_dict(), p1.as_dict()
    if len(d1["time"]) != len(d0["time"]):
        ctx.violate("rinex2:blank-continuation-line:row-lost", f"blanking an all-missing continuation line changes the number of rows {len(d0['time'])} -> {len(d1['time'])}",
                    {**case, "file_text": t2})
        return
    types = list(p0.meta["obstypes"].get("G", []))
    for t in d0["obs"]:
        a, b = col_floats(d0["obs"][t]), col_floats(d1["obs"].get(t, []))
        idx = p0_types_index(lines, h, t)
        if idx is not None and idx >= 10:
            a[0] = None  # the blanked third line of row 0
        if a != b:
            ctx.violate("rinex2:blank-continuation-line:values-shift", f"blanking an all-missing continuation line moves the values of {t}", {**case, "file_text": t2})
            return


def p0_types_index(lines, h, t) -> Optional[int]:
    ts: List[str] = []
    for l in lines[:h]:
        if l[60:].strip() == "# / TYPES OF OBSERV":
            ts += l[6:60].split()
    return ts.index(t) if t in ts else None


def stats(ctx: Ctx, m, rate):
    ctx.count(f"rinex{m['fmt']}")
    ctx.count(f"rinex{m['fmt']} epochs={min(len(m['epochs']), 9)}")
    ctx.count("rate=" + ("none" if rate is None else "set"))
    ctx.count(f"style={m['style']}")
    if m["fmt"] == 3:
        ctx.count(f"rinex3 systems={len(m['obstypes'])}")
        for s, ts in m["obstypes"].items():
            ctx.count("rinex3 types>13" if len(ts) > 13 else "rinex3 types<=13")
    else:
        ctx.count("rinex2 types>5" if len(m["obstypes"]) > 5 else "rinex2 types<=5")
        if any(len(e["sats"]) > 12 for e in m["epochs"]):
            ctx.count("rinex2 sats>12")
        if m["blank_sys"]:
            ctx.count("rinex2 blank system id")
        for e in m["epochs"]:
            for s in e["sats"]:
                obs = s["obs"]
                for i in range(5, len(obs), 5):
                    if all(o == ["", "", ""] for o in obs[i:i + 5]):
                        ctx.count("rinex2 all-blank continuation line")


def replay(payload):
    c = payload.get("replay", payload)
    print("key:", payload.get("key"))
    print("what:", payload.get("what"))
    text, m = c.get("file_text"), c.get("model")
    if not text:
        import json
        print(json.dumps(c, indent=1, default=str)[:3000])
        return 0
    wd = Workdir()
    try:
        fmt = m["fmt"] if isinstance(m, dict) else (2 if "rinex2" in str(payload.get("key")) else 3)
        rate = c.get("rate")
        p, err, exc = run_impl(wd, fmt, text, rate)
        print("file text (first 40 lines):\n" + "\n".join(l[:100] for l in text.split("\n")[:40]))
        if p is None:
            print("parser raised:", repr(exc))
        if isinstance(m, dict):
            fails = oracle(m, p, err, rate)
            for key, what in fails:
                print(f"ORACLE FAILS [{key}]: {what}")
            print("verdict:", "property violated on this input" if fails else "property holds on this input")
            return 1 if fails else 0
        if p is not None:
            print("rows parsed:", len(p.as_dict().get("time", [])))
    finally:
        wd.close()
    return 0
