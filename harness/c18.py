"""C18 — site-information history lookup returns the entry valid at the requested date.

translate:   translator/extract_siteinfo.py → Generated/SiteInfoTables.lean (module list, registries, per registered
             history class the blocks / date fields it reads and how it keys the history, from its source text)
prove:       lean/Midgard/Props/C18.lean (interval search, `last`, open ends, station normalisation,
             combined = modules) about lean/Midgard/Model/SiteInfo.lean
correspond:  Antenna/Receiver/Eccentricity/SiteCoord/Identifier.get/get_history and
             SiteInfo.get/get_history of the real code on in-memory SINEX / SSC source dicts
             versus the compiled model, query sequences on one shared source dict
oracle:      the property stated directly on the real code: half-open interval containment with
             None/min/max as ∓∞, `last` = latest start, combined = individual modules, any letter
             case / every kind of the stations argument (text, containers, one-shot iterables), source data unchanged
             and repeated queries identical
"""
from __future__ import annotations

import copy
import os
import json
from datetime import datetime, timedelta

from . import common
from .common import Ctx, hexs

US = timedelta(microseconds=1)
DMAX = (datetime.max - datetime.min) // US
PNAMES = ["STAX", "STAY", "STAZ", "VELX", "VELY", "VELZ"]
MODS = ["antenna", "eccentricity", "identifier", "receiver", "site_coord"]
HIST_MODS = ["antenna", "eccentricity", "receiver", "site_coord"]
SNX_BLOCK = {"antenna": "ant", "receiver": "rcv", "eccentricity": "ecc"}
NAMES = ["osls", "smne", "zimm", "ny1s", "abmf00glp", "hrao", "a1b2"]


def dt(us):
    return None if us is None else datetime.min + timedelta(microseconds=us)


def us_of(d):
    return (d - datetime.min) // US


def usx(d):
    """canonical text of a history key component (a non-datetime is shown, never raised on)"""
    return str(us_of(d)) if isinstance(d, datetime) else f"?{type(d).__name__}"


def _mods():
    from midgard.site_info.antenna import Antenna
    from midgard.site_info.eccentricity import Eccentricity
    from midgard.site_info.identifier import Identifier
    from midgard.site_info.receiver import Receiver
    from midgard.site_info.site_coord import SiteCoord
    from midgard.site_info.site_info import SiteInfo

    return {"antenna": Antenna, "eccentricity": Eccentricity, "identifier": Identifier, "receiver": Receiver,
            "site_coord": SiteCoord, "all": SiteInfo}


# ------------------------------------------------------------------------------------------------
# generators (abstract, JSON-able descriptions; dates are microseconds after datetime.min)

Y = 365 * 86400 * 10**6
T1990 = us_of(datetime(1990, 1, 1))


class Tags:
    def __init__(self):
        self.n = 0

    def __call__(self):
        self.n += 1
        return self.n


def gen_intervals(rng, n=None):
    """0..8 intervals: contiguous / gapped / open-ended, sometimes shuffled, duplicated, overlapping,
    empty or reversed; sometimes the literal datetime.min/max instead of None"""
    if n is None:
        n = rng.choice([0, 1, 1, 2, 2, 3, 3, 4, 5, 6, 7, 8])
    t = T1990 + rng.randrange(0, 30 * Y, 10**6)
    if rng.random() < 0.2:
        t += rng.randrange(1, 10**6)
    out = []
    mode = rng.choice(["contiguous", "gapped", "mixed", "sinex30s"])
    for i in range(n):
        length = rng.choice([10**6, 2 * 10**6, 86400 * 10**6, rng.randrange(1, 3 * Y), rng.randrange(1, 3 * Y, 10**6)])
        s, e = t, t + length
        out.append([s, e])
        if mode == "contiguous":
            gap = 0
        elif mode == "gapped":
            gap = rng.choice([10**6, 30 * 10**6, 86400 * 10**6, rng.randrange(1, Y)])
        elif mode == "sinex30s":
            gap = 30 * 10**6
        else:
            gap = rng.choice([0, 0, 10**6, rng.randrange(1, Y)])
        t = e + gap
    if out and rng.random() < 0.35:
        out[0][0] = None if rng.random() < 0.7 else 0
    if out and rng.random() < 0.45:
        out[-1][1] = None if rng.random() < 0.7 else DMAX
    k = rng.random()
    if out and k < 0.06:  # duplicate interval (same dict key, later record wins)
        out.insert(rng.randrange(len(out) + 1), list(rng.choice(out)))
    elif len(out) >= 2 and k < 0.13:  # overlap
        i = rng.randrange(len(out) - 1)
        if out[i + 1][1] is not None and out[i][1] is not None:
            out[i][1] = rng.randrange(out[i][1], out[i + 1][1]) + 1
    elif out and k < 0.17:  # empty or reversed interval
        i = rng.randrange(len(out))
        if out[i][0] is not None and out[i][1] is not None:
            out[i][1] = max(0, out[i][0] - rng.choice([0, 10**6]))
    elif len(out) >= 2 and k < 0.22:  # all open at both ends but one: several open-ended entries
        for iv in out:
            if rng.random() < 0.5:
                iv[1] = None
    elif out and k < 0.30:  # a second record with the same start and another end (a different key of the history dict)
        i = rng.randrange(len(out))
        s_, e_ = out[i]
        if e_ is not None and s_ is not None:
            e2 = rng.choice([e_ + 10**6, max(s_ + 1, e_ - 10**6), None, e_ + rng.randrange(1, Y)])
            out.insert(rng.choice([i, i + 1]), [s_, None if e2 is None else min(e2, DMAX)])
    if rng.random() < 0.15:
        rng.shuffle(out)
    return out


def count_shapes(ctx, case):
    """which shapes of histories a case holds (coverage of _create_history's dictionary semantics and of short gaps)"""
    feats = set()
    for st in case["source"]:
        for ivs in ([[(r[0], r[1]) for r in (st.get(b) or [])] for b in ("ant", "rcv", "ecc")]
                    + [[(r[1], r[2]) for r in (st.get("epochs") or [])], [(r[1], r[2]) for r in (st.get("pv") or [])]]):
            keys = [tuple(iv) for iv in ivs]
            if len(set(keys)) < len(keys):
                feats.add("same-start-and-end-twice(overwrite)")
            starts = {}
            for s_, e_ in keys:
                starts.setdefault(s_, set()).add(e_)
            if any(len(v) > 1 for v in starts.values()):
                feats.add("same-start-different-ends")
            ends = [e_ for _, e_ in keys if e_ is not None]
            if any(0 < s_ - e_ <= 30 * 10**6 for s_, _ in keys if s_ is not None for e_ in ends):
                feats.add("gap<=30s" + (":ssc" if case["kind"] == "ssc" else ":snx"))
            if len(keys) == 0:
                feats.add("empty-history")
    for f in feats:
        ctx.count("history:" + f)


def case_key(rng, name):
    k = rng.random()
    if k < 0.62:
        return name
    if k < 0.92:
        return name.upper()
    return name.capitalize()


def gen_source(rng, kind):
    tag = Tags()
    k = rng.random()
    if k < 0.03:
        return []
    names = rng.sample(NAMES, rng.choice([1, 1, 2, 2, 3]))
    sts = []
    for nm in names:
        key = case_key(rng, nm)
        if kind == "snx":
            st = {"key": key}
            for b in ("ant", "rcv", "ecc"):
                st[b] = None if rng.random() < 0.06 else [[s, e, tag()] for s, e in gen_intervals(rng)]
            st["sid"] = None if rng.random() < 0.06 else tag()
            r = rng.random()
            if r < 0.08:
                st["epochs"], st["est"] = None, None
            else:
                ivs = gen_intervals(rng)
                solns = list(range(1, len(ivs) + 1))
                if rng.random() < 0.1 and len(solns) >= 2:
                    solns[-1] = solns[0]  # two epochs sharing a soln
                st["epochs"] = [[sn, s, e, tag()] for sn, (s, e) in zip(solns, ivs)]
                est = []
                for sn in sorted(set(solns)) + ([99] if rng.random() < 0.1 else []):
                    npar = rng.choice([3, 3, 6, 6, 2, 0])
                    for p in range(npar):
                        est.append([sn, p, tag()])
                    if npar and rng.random() < 0.1:
                        est.append([sn, 0, tag()])  # repeated parameter: the later record wins
                if rng.random() < 0.1:
                    rng.shuffle(est)
                st["est"] = est
                if rng.random() < 0.3:  # the parser attaches the LOCAL_GEODETIC_DATUM of FILE/COMMENT to every estimate
                    st["frame"] = rng.choice(["IGS14", "IGb14", "ITRF2014"])
                if r < 0.12:
                    st["epochs"] = None  # estimates without epochs: empty history
                elif r < 0.16:
                    st["est"] = None  # epochs without estimates: no coordinate information
            sts.append(st)
        else:
            ivs = gen_intervals(rng)
            solns = list(range(1, len(ivs) + 1))
            if rng.random() < 0.15:
                rng.shuffle(solns)
            sts.append({"key": key, "tag": tag(), "pv": [[sn, s, e, tag()] for sn, (s, e) in zip(solns, ivs)]})
    return sts


def flip_case(rng, s):
    return "".join(c.upper() if rng.random() < 0.5 else c.lower() for c in s)


# the kinds of the `stations` argument (documented as `Union[str, Iterable]`): comma separated text; containers that can be
# iterated again (list, tuple, set, dict keys view, numpy array of str); one-shot iterables (generator - e.g. names read
# line by line from a station file -, map, filter, iterator, reversed), which hand their items out exactly once
REITERABLE = ["list", "tuple", "set", "dictkeys", "nparray"]
ONE_SHOT = ["generator", "map", "filter", "iter", "reversed"]


def iter_order(st):
    """the names in the order the argument hands them out when iterated once"""
    v = list(st["value"])
    if st["form"] == "set":
        return list(set(v))
    if st["form"] == "dictkeys":
        return list(dict.fromkeys(v))
    return v


def build_stations(st):
    """the real argument object; a new one on every call (a one-shot iterable is used up by the call)"""
    v, form = list(st["value"]), st["form"]
    if form == "text":
        return st["value"]
    if form == "list":
        return v
    if form == "tuple":
        return tuple(v)
    if form == "set":
        return set(v)
    if form == "dictkeys":
        return dict.fromkeys(v).keys()
    if form == "nparray":
        import numpy as np

        return np.array(v, dtype=str) if v else np.array([], dtype=str)
    if form == "generator":
        return (line.strip() for line in [x + "\n" for x in v])  # as when reading a station list file
    if form == "map":
        return map(str, v)
    if form == "filter":
        return filter(None, v + [""])
    if form == "iter":
        return iter(v)
    if form == "reversed":
        return reversed(v[::-1])
    raise AssertionError(form)


def gen_stations(rng, source):
    """stations argument: names known to the source (any letter case), sometimes an unknown one,
    as comma separated text (with blanks), as a container or as a one-shot iterable"""
    known = [st["key"].lower() for st in source] or ["osls"]
    n = rng.choice([1, 1, 1, 2, 2, 3])
    names = [rng.choice(known) for _ in range(n)]
    if rng.random() < 0.08:
        names[rng.randrange(n)] = "xxxx"
    names = [rng.choice([s, s.upper(), flip_case(rng, s)]) for s in names]
    if rng.random() < 0.5:
        pad = lambda: rng.choice(["", "", " ", "  ", "\t"])
        return {"form": "text", "value": ",".join(pad() + s + pad() for s in names)}
    k = rng.random()
    return {"form": "list" if k < 0.3 else rng.choice(REITERABLE[1:]) if k < 0.6 else rng.choice(ONE_SHOT), "value": names}


def interesting_dates(rng, ivs):
    """every boundary, ±1 s, ±1 µs, midpoints, gaps, before/after everything, datetime.min/max"""
    ds = {0, DMAX, T1990 - 86400 * 10**6}
    bs = [b for iv in ivs for b in iv if b is not None]
    for b in bs:
        for d in (0, 1, -1, 10**6, -(10**6)):
            if 0 <= b + d <= DMAX:
                ds.add(b + d)
    srt = sorted(set(bs))
    for a, b in zip(srt, srt[1:]):
        ds.add((a + b) // 2)
    if srt:
        ds.add(min(srt[-1] + 86400 * 10**6, DMAX))
    return sorted(ds)


def source_intervals(st, kind):
    out = []
    if kind == "snx":
        for b in ("ant", "rcv", "ecc"):
            out += [(r[0], r[1]) for r in (st[b] or [])]
        out += [(r[1], r[2]) for r in (st["epochs"] or [])]
    else:
        out += [(r[1], r[2]) for r in st["pv"]]
    return out


def gen_case(rng, nq):
    kind = rng.choice(["snx", "snx", "ssc"])
    source = gen_source(rng, kind)
    queries = []
    for _ in range(nq):
        st = gen_stations(rng, source)
        mod = rng.choice(MODS + HIST_MODS + ["all", "all"])
        if kind == "ssc" and rng.random() < 0.5:
            mod = rng.choice(["site_coord", "all"])
        op = "get" if rng.random() < 0.8 else "hist"
        date = None
        if op == "get":
            ivs = [iv for s in source for iv in source_intervals(s, kind)]
            k = rng.random()
            if k < 0.1:
                date = "last"
            elif k < 0.14:
                date = None
            else:
                date = rng.choice(interesting_dates(rng, ivs))
        queries.append({"mod": mod, "op": op, "stations": st, "date": date})
        if rng.random() < 0.15:  # the same query again, later in the sequence
            queries.append(copy.deepcopy(rng.choice(queries)))
    return {"kind": kind, "source": source, "queries": queries}


# ------------------------------------------------------------------------------------------------
# building the real source dictionaries / the driver encoding


def build_real(kind, source):
    data = {}
    for st in source:
        if kind == "snx":
            d = {}
            site = st["key"].upper()[:4]
            if st["ant"] is not None:
                d["site_antenna"] = [
                    {"site_code": site, "point_code": "A", "soln": "1", "obs_code": "P", "start_time": dt(s),
                     "end_time": dt(e), "antenna_type": "AOAD/M_T", "radome_type": "NONE", "serial_number": str(t),
                     "_tag": t} for s, e, t in st["ant"]]
            if st["rcv"] is not None:
                d["site_receiver"] = [
                    {"site_code": site, "point_code": "A", "soln": "1", "obs_code": "P", "start_time": dt(s),
                     "end_time": dt(e), "receiver_type": "TRIMBLE NETR9", "serial_number": str(t), "firmware": "5.45",
                     "_tag": t} for s, e, t in st["rcv"]]
            if st["ecc"] is not None:
                d["site_eccentricity"] = [
                    {"site_code": site, "point_code": "A", "soln": "1", "obs_code": "P", "start_time": dt(s),
                     "end_time": dt(e), "vector_type": "UNE", "vector_1": 0.1, "vector_2": 0.0, "vector_3": 0.0,
                     "_tag": t} for s, e, t in st["ecc"]]
            if st["sid"] is not None:
                d["site_id"] = {"site_code": site, "point_code": "A", "domes": "10402M004", "marker": "", "obs_code": "P",
                                "description": "Somewhere, Norway", "_tag": st["sid"]}
            if st["epochs"] is not None:
                d["solution_epochs"] = [
                    {"site_code": site, "point_code": "A", "soln": str(sn), "obs_code": "C", "start_epoch": dt(s),
                     "end_epoch": dt(e), "mean_epoch": None, "_tag": t} for sn, s, e, t in st["epochs"]]
            if st["est"] is not None:
                d["solution_estimate"] = [
                    {"param_idx": t, "param_name": PNAMES[p], "site_code": site, "point_code": "A", "soln": str(sn),
                     "ref_epoch": datetime(2010, 1, 1), "unit": "m", "constraint": "2", "estimate": float(t),
                     "estimate_std": 0.001, "_tag": t, **({"ref_frame": st["frame"]} if st.get("frame") else {})}
                    for sn, p, t in st["est"]]
            data[st["key"]] = d
        else:
            data[st["key"]] = {
                "domes": "10001M007", "name": st["key"].upper(), "tech": "GPS", "site_id": st["key"].lower(),
                "soln": len(st["pv"]), "_tag": st["tag"],
                "pos_vel": {sn: {"STAX": 1.0, "STAY": 2.0, "STAZ": 3.0, "sigma_X": 0.001, "sigma_Y": 0.001,
                                 "sigma_Z": 0.001, "ref_epoch": datetime(2010, 1, 1), "start": dt(s), "end": dt(e),
                                 "VELX": 0.0, "VELY": 0.0, "VELZ": 0.0, "_tag": t} for sn, s, e, t in st["pv"]},
            }
    return data


def o(x):
    return "-" if x is None else str(x)


def items(rows):
    if rows is None:
        return "-"
    if not rows:
        return "[]"
    return ",".join("~".join(o(x) for x in r) for r in rows)


def encode_source(kind, source):
    if not source:
        return "E"
    out = []
    for st in source:
        if kind == "snx":
            out.append(":".join([hexs(st["key"]), items(st["ant"]), items(st["rcv"]), items(st["ecc"]), o(st["sid"]),
                                 items(st["epochs"]), items(st["est"])]))
        else:
            out.append(":".join([hexs(st["key"]), str(st["tag"]), items(st["pv"])]))
    return "|".join(out)


def encode_stations(st):
    if st["form"] == "text":
        return "T" + hexs(st["value"])
    names = iter_order(st)
    return ("O" if st["form"] in ONE_SHOT else "L") + (",".join(hexs(s) for s in names) if names else "[]")


def encode_query(kind, source, q):
    return f"c18 q {kind} {encode_source(kind, source)} {q['mod']} {q['op']} {encode_stations(q['stations'])} {o(q['date'])}"


# ------------------------------------------------------------------------------------------------
# running and canonicalising the real code


def canon_entry(e):
    info = e._info
    s = f"T{info['_tag']}"
    par = [(PNAMES.index(k), v["_tag"]) for k, v in info.items() if k in PNAMES and isinstance(v, dict)]
    if par:
        s += "{" + ",".join(f"{a}>{b}" for a, b in par) + "}"
    return s


def canon_val(v):
    from midgard.site_info._site_info import SiteInfoHistoryBase

    if v is None:
        return "N"
    if isinstance(v, SiteInfoHistoryBase):
        if v.history is None:
            return "HN"
        return "H[" + ",".join(f"{usx(k[0])}~{usx(k[1])}~{canon_entry(e)}" for k, e in v.history.items()) + "]"
    if type(v).__name__.startswith("Identifier"):
        return f"I{v._info['_tag']}"
    return canon_entry(v)


def canon_err(ex):
    from midgard.dev.exceptions import MissingDataError

    if isinstance(ex, MissingDataError):
        return "E:missing"
    if isinstance(ex, KeyError):
        return "E:key"
    if isinstance(ex, IndexError):
        return "E:index"
    return f"E:other:{type(ex).__name__}"


def call_real(mods, kind, data, q):
    """returns (canonical text, raw result or exception)"""
    st = build_stations(q["stations"])
    date = q["date"]
    if isinstance(date, int):
        date = dt(date)
    m = mods[q["mod"]]
    try:
        if q["op"] == "get":
            r = m.get(kind, data, st, date, source_path="mem")
        else:
            r = m.get_history(kind, data, st, source_path="mem")
    except Exception as ex:  # noqa: BLE001 - every exception class is mapped and compared
        return canon_err(ex), ex
    if q["mod"] == "all":
        txt = ";".join(hexs(k) + "=" + "/".join(f"{mn}:{canon_val(v)}" for mn, v in d.items()) for k, d in r.items())
    else:
        txt = ";".join(f"{hexs(k)}={canon_val(v)}" for k, v in r.items())
    return (txt or "{}"), r


def snapshot(data):
    """deep, order-preserving snapshot of the source data"""
    return json.dumps(data, default=str)


# ------------------------------------------------------------------------------------------------
# the property oracle (independent of the Lean model)


def find_station(source, name):
    """the record of the source the code is documented to use: lower-case key, else upper-case key"""
    for st in source:
        if st["key"] == name.lower():
            return st
    for st in source:
        if st["key"] == name.upper():
            return st
    return None


def raws_of(kind, st, mod):
    """(records as (start, stop, tag), block_present, has_history) for one station and history module"""
    if kind == "snx":
        if mod in SNX_BLOCK:
            rows = st[SNX_BLOCK[mod]]
            return (None, False, False) if rows is None else ([tuple(r) for r in rows], True, True)
        if st["est"] is None:
            return None, True, False  # no coordinate information → None
        return [(r[1], r[2], r[3]) for r in (st["epochs"] or [])], True, True
    if mod == "site_coord":
        return [(r[1], r[2], r[3]) for r in st["pv"]], True, True
    return None, True, False


def inf_from(s):
    return float("-inf") if s is None or s == 0 else s


def inf_to(e):
    return float("inf") if e is None or e == DMAX else e


def norm_names(st):
    if st["form"] == "text":
        return [s.strip().lower() for s in st["value"].split(",")]
    return [s.lower() for s in iter_order(st)]


def oracle_module_get(rep, kind, source, q, txt, raw, qi):
    """lookup semantics of one history module on the real result"""
    mod = q["mod"]
    names = norm_names(q["stations"])
    # which exception, if any, is documented
    expect_missing = False
    for nm in names:
        st = find_station(source, nm)
        if st is None:
            if source or mod == "identifier":
                expect_missing = True
            break
        if mod == "identifier":
            if kind == "snx" and st["sid"] is None:
                expect_missing = True
                break
            continue
        rows, present, _ = raws_of(kind, st, mod)
        if not present:
            expect_missing = True
            break
    key = f"{kind}:{mod}"
    if isinstance(raw, Exception):
        if not (expect_missing and txt == "E:missing"):
            rep.violate(f"raises:{type(raw).__name__}:{key}",
                        f"{mod}.{q['op']} on a {kind} source raised {type(raw).__name__}({raw}) for stations present in the source",
                        qi)
        return
    if expect_missing:
        rep.violate(f"no-error:{key}", f"{mod}.{q['op']}: unknown station / absent block did not raise MissingDataError", qi)
        return
    if set(raw.keys()) != set(names):
        rep.violate(f"stations:{key}", f"result keys {sorted(raw)} differ from the stations asked for {sorted(set(names))}", qi)
        return
    if mod == "identifier" or q["op"] == "hist" or q["date"] is None:
        return
    for nm in set(names):
        got = raw[nm]
        st = find_station(source, nm)
        rows = raws_of(kind, st, mod)[0] if st is not None else None
        if rows is None:  # empty source dict or a source without this information
            if got is not None:
                rep.violate(f"lookup:{key}", "an entry was returned although the source has no history for the station", qi)
            continue
        got_tag = None if got is None else got._info["_tag"]
        if q["date"] == "last":
            if not rows:
                if got is not None:
                    rep.violate(f"last:{key}", "'last' of an empty history returned an entry", qi)
                continue
            best = max(inf_from(r[0]) for r in rows)
            winners = [r[2] for r in rows if inf_from(r[0]) == best]
            if got_tag not in winners:
                rep.violate(f"last:{key}", f"'last' returned entry {got_tag}, the latest start belongs to {winners}", qi)
            continue
        d = q["date"]
        hits = [r[2] for r in rows if inf_from(r[0]) <= d < inf_to(r[1])]
        if not hits:
            if got is not None:
                rep.violate(f"lookup:{key}", f"date in no interval but entry {got_tag} was returned", qi)
        elif got is None:
            what = "open-end:date=datetime.max" if d == DMAX else f"lookup:{key}"
            rep.violate(what, f"date lies in the interval of entry {hits} but nothing was returned", qi)
        elif got_tag not in hits:
            rep.violate(f"lookup:{key}", f"entry {got_tag} was returned, the date lies in the interval of {hits}", qi)
        if got is not None and kind == "snx" and mod == "site_coord":
            oracle_params(rep, st, got, qi)


def oracle_params(rep, st, got, qi):
    """a SINEX coordinate entry carries the estimates of its own solution number: for every parameter the last
    SOLUTION/ESTIMATE record of the station with that solution number and parameter name, wherever in the block it stands"""
    tag = got._info["_tag"]
    soln = next((r[0] for r in (st["epochs"] or []) if r[3] == tag), None)
    if soln is None:
        return
    want = {}
    for sn, p_, t in st["est"] or []:
        if sn == soln:
            want[p_] = t
    have = {PNAMES.index(k): v["_tag"] for k, v in got._info.items() if k in PNAMES and isinstance(v, dict)}
    if have != want:
        rep.violate("site_coord:parameters-of-the-solution",
                    f"the entry of solution {soln} carries the estimates {have} (parameter index -> record), the SOLUTION/ESTIMATE "
                    f"records of that solution are {want}", qi)


class Reporter:
    """collects oracle failures / disagreements of one case (ctx in a run, a list in replay)"""

    def __init__(self, ctx, case):
        self.ctx, self.case, self.hits = ctx, case, []

    def violate(self, key, what, qi):
        self.hits.append((key, what, qi))
        if self.ctx is not None:
            # one replay per stable key (common.finish reports per key; its buffer is bounded)
            seen = self.ctx.__dict__.setdefault("_c18_seen", {})
            seen[key] = seen.get(key, 0) + 1
            if seen[key] == 1:
                self.ctx.violate(key, what, {"case": self.case, "query_index": qi})
            else:
                self.ctx.count("oracle_failures")
            self.ctx.count(f"violation:{key}")

    def disagree(self, name, qi, model, impl):
        if self.ctx is not None:
            seen = self.ctx.__dict__.setdefault("_c18_seen_dis", {})
            seen[name] = seen.get(name, 0) + 1
            if seen[name] <= 2:
                self.ctx.disagree(name, {"case": self.case, "query_index": qi}, model, impl)
            else:
                self.ctx.count("disagreements")


def check_case(ctx, drv, mods, case, rng, given=None):
    """run the query sequence of one case on ONE shared source dict; correspondence + oracle.
    `given`: a real source dict (parsed file with planted tags) instead of the one built from the case"""
    kind, source = case["kind"], case["source"]
    rep = Reporter(ctx, case)
    make = (lambda: build_real(kind, source)) if given is None else (lambda: copy.deepcopy(given))
    data = make()
    pristine = snapshot(data)
    model = drv.ask([encode_query(kind, source, q) for q in case["queries"]]) if drv is not None else None
    seen = {}
    for qi, q in enumerate(case["queries"]):
        before = snapshot(data)
        txt, raw = call_real(mods, kind, data, q)
        after = snapshot(data)
        key = f"{kind}:{q['mod']}"
        if ctx is not None:
            ctx.count(f"mod={q['mod']}")
            ctx.count(f"op={q['op']}")
            ctx.count(f"stations={q['stations']['form']}" + ("(combined query)" if q["mod"] == "all" else ""))
            ctx.count("date=" + ("none" if q["date"] is None else q["date"] if q["date"] == "last" else "datetime"))
            ctx.count("answer=" + ("error" if txt.startswith("E:") else "none" if "=N" in txt and "T" not in txt else "entry"))
        # --- purity: the query must not change the source data
        if after != before:
            rep.violate(f"source-mutated:{key}", f"{q['mod']}.{q['op']} changed the caller's source data", qi)
        # --- repeated query: same answer as the first time
        qk = json.dumps(q, sort_keys=True)
        if qk in seen and seen[qk] != txt:
            rep.violate(f"repeat-differs:{key}", f"the same query answered {seen[qk]!r} first and {txt!r} later", qi)
        seen.setdefault(qk, txt)
        # --- correspondence with the model (which always sees the pristine source)
        if model is not None and model[qi] != txt:
            rep.disagree(f"{q['mod']}.{q['op']} ({kind})", qi, model[qi], txt)
        # --- lookup semantics
        if q["mod"] != "all":
            oracle_module_get(rep, kind, source, q, txt, raw, qi)
        else:
            # combined = individual modules, on a fresh copy of the pristine source
            fresh = make()
            parts = {}
            err = None
            names = norm_names(q["stations"])
            for nm in dict.fromkeys(names):
                for mn in MODS:
                    if q["op"] == "hist" and mn == "identifier":
                        continue
                    sub = dict(q, mod=mn, stations={"form": "list", "value": [nm]})
                    t, r = call_real(mods, kind, fresh, sub)
                    oracle_module_get(rep, kind, source, sub, t, r, qi)
                    if isinstance(r, Exception):
                        err = err or t
                    else:
                        parts.setdefault(nm, {})[mn] = t.split("=", 1)[1]
            if err is not None:
                want = err
            else:
                want = ";".join(hexs(nm) + "=" + "/".join(f"{mn}:{v}" for mn, v in d.items()) for nm, d in parts.items()) or "{}"
            if want != txt:
                rep.violate(f"combined-differs:{kind}", f"SiteInfo.{q['op']} gave {txt!r}, the individual modules {want!r}", qi)
        # --- any letter case, either form: same answer
        if rng is not None and (not txt.startswith("E:") or txt == "E:missing"):
            names = norm_names(q["stations"])
            if all(n and "," not in n and n == n.strip() for n in names):
                alt_names = [flip_case(rng, n) for n in names]
                if rng.random() < 0.6:
                    # (not a set: its iteration order, hence the order of the answer, is its own)
                    alt = {"form": rng.choice([f for f in REITERABLE + ONE_SHOT if f != "set"]), "value": alt_names}
                else:
                    alt = {"form": "text", "value": " , ".join(alt_names)}
                fresh = make()
                t2, _ = call_real(mods, kind, fresh, dict(q, stations=alt))
                if t2 != txt:
                    rep.violate(f"form-differs:{key}", f"stations {q['stations']} gave {txt!r} but {alt} gave {t2!r}", qi)
    if snapshot(data) != pristine and not any(h[0].startswith("source-mutated") for h in rep.hits):
        rep.violate(f"source-mutated:{kind}", "the source data differs after the query sequence", len(case["queries"]) - 1)
    # --- the caller updates the source data in place (an instrument is replaced: the open-ended entry is closed, a new
    # one appended; an early entry is dropped) and asks again with the same dictionary object: the answers are those
    # of the histories the data holds *now*
    if given is None and rng is not None and not any(h[0].startswith("source-mutated") for h in rep.hits) and rng.random() < 0.6:
        source2 = updated_source(rng, kind, source)
        if source2 is not None:
            new = build_real(kind, source2)
            # ask everything once more with this very dictionary and nothing else in between (whatever the library
            # remembers about it is remembered now), update it, ask again; only then ask fresh dictionaries
            for q in case["queries"]:
                call_real(mods, kind, data, q)
            for k in list(data):
                data[k].clear()
                data[k].update(new[k])
            if ctx is not None:
                ctx.count("history:query,update-source-in-place,query")
            answers = [call_real(mods, kind, data, q) for q in case["queries"]]
            for qi, q in enumerate(case["queries"]):
                txt, raw = answers[qi]
                t2, _ = call_real(mods, kind, build_real(kind, source2), q)
                if txt != t2:
                    rep.violate(f"stale-after-source-updated:{kind}:{q['mod']}",
                                f"after the source data was updated in place {q['mod']}.{q['op']} answers {txt!r}, but {t2!r} on a fresh dictionary with the same contents", qi)
                    break
                if q["mod"] != "all":
                    oracle_module_get(rep, kind, source2, q, txt, raw, qi)
    return rep


def updated_source(rng, kind, source):
    """the abstract source after an in-place update: per station and block either the last interval is closed at a
    later date and a new open-ended one appended, or the first interval is dropped, or the block is left alone"""
    src = copy.deepcopy(source)
    tag = 900000
    changed = False
    for st in src:
        blocks = ("ant", "rcv", "ecc") if kind == "snx" else ("pv",)
        for b in blocks:
            rows = st.get(b)
            if not rows:
                continue
            how = rng.choice(["append", "append", "drop-first", "keep"])
            if how == "append":
                # rows: [start, end, tag] (snx) or [soln, start, end, tag] (ssc)
                i0 = 0 if kind == "snx" else 1
                ends = [r[i0 + 1] for r in rows if r[i0 + 1] is not None]
                starts = [r[i0] for r in rows if r[i0] is not None]
                last_t = max(ends + starts) if (ends + starts) else 0
                cut = last_t + 86400 * 1000000 * rng.randint(1, 400)
                if cut > 3.0e17:      # beyond datetime.max
                    continue
                for r in rows:
                    if r[i0 + 1] is None:
                        r[i0 + 1] = cut
                tag += 1
                if kind == "snx":
                    rows.append([cut, None, tag])
                else:
                    rows.append([max(r[0] for r in rows) + 1, cut, None, tag])
                changed = True
            elif how == "drop-first" and len(rows) > 1:
                rows.pop(0)
                changed = True
    return src if changed else None


# ------------------------------------------------------------------------------------------------


def systematic_cases():
    """a fixed boundary set: every module × source × key case × {each boundary ±1 s, gaps, last, min, max},
    each date asked twice on the same source dict"""
    cases = []
    a, b, c, d = (us_of(datetime(2000, 1, 1)), us_of(datetime(2005, 6, 1)), us_of(datetime(2005, 6, 1, 0, 0, 30)),
                  us_of(datetime(2012, 3, 4, 5, 6, 7)))
    shapes = {
        "closed-gapped": [[a, b], [c, d]],
        "open-both": [[None, b], [b, None]],
        "open-end": [[a, b], [b, d], [d, None]],
        "open-start": [[None, a], [c, d]],
        "single": [[a, d]],
        "empty": [],
    }
    for shape, ivs in shapes.items():
        for kind in ("snx", "ssc"):
            for keycase in ("lower", "upper"):
                tag = Tags()
                key = "osls" if keycase == "lower" else "OSLS"
                if kind == "snx":
                    st = {"key": key, "ant": [[s, e, tag()] for s, e in ivs], "rcv": [[s, e, tag()] for s, e in ivs],
                          "ecc": [[s, e, tag()] for s, e in ivs], "sid": tag(),
                          "epochs": [[i + 1, s, e, tag()] for i, (s, e) in enumerate(ivs)], "est": []}
                    st["est"] = [[i + 1, p, tag()] for i in range(len(ivs)) for p in range(3)]
                else:
                    st = {"key": key, "tag": tag(), "pv": [[i + 1, s, e, tag()] for i, (s, e) in enumerate(ivs)]}
                dates = interesting_dates(None, ivs) + ["last", None]
                queries = []
                for mod in MODS + ["all"]:
                    for date in dates:
                        queries.append({"mod": mod, "op": "get", "stations": {"form": "text", "value": "OSLS"}, "date": date})
                    queries.append({"mod": mod, "op": "hist", "stations": {"form": "list", "value": ["Osls"]}, "date": None})
                for form in REITERABLE[1:] + ONE_SHOT:  # every kind of the stations argument, combined query and one module
                    for mod in ("all", "receiver"):
                        queries.append({"mod": mod, "op": "get", "stations": {"form": form, "value": ["Osls"]}, "date": "last"})
                        queries.append({"mod": mod, "op": "hist", "stations": {"form": form, "value": ["Osls"]}, "date": None})
                cases.append({"kind": kind, "source": [st], "queries": queries + queries[:: max(1, len(queries) // 7)],
                              "label": f"{shape}/{kind}/{keycase}"})
    return cases


def structural(ctx, mods):
    """ties that are not input/output behaviour: constants and the normalisation the model shares"""
    lo, hi = ctx.driver.ask1("c18 consts").split()
    if int(lo) != 0 or int(hi) != DMAX:
        ctx.disagree("datetime.min/max constants", {"consts": [lo, hi]}, [lo, hi], [0, DMAX])
    # the source dictionaries the harness builds have the blocks and date fields every registered history class of the
    # file sources reads (regenerated table, compared with the model's in theorem history_shapes)
    from translator import extract_siteinfo

    t0 = us_of(datetime(2000, 1, 1))
    snx = build_real("snx", [{"key": "osls", "ant": [[t0, None, 1]], "rcv": [[t0, None, 2]], "ecc": [[t0, None, 3]], "sid": 4,
                              "epochs": [[1, t0, None, 5]], "est": [[1, 0, 6]]}])["osls"]
    ssc = build_real("ssc", [{"key": "osls", "tag": 1, "pv": [[1, t0, None, 2]]}])["osls"]
    for mod, src, cls, blocks, recs, dfrom, dto, keyed in extract_siteinfo.extract()["shapes"]:
        if src == "m3g":
            continue
        ctx.count(f"history-class:{src}:{cls}")
        built = snx if src == "snx" else ssc
        rows = [r for b in blocks for r in built.get(b, [])] if src == "snx" else list(built["pos_vel"].values())
        ok = all(b in built for b in blocks) and all(any(k in r for r in rows) for k in dfrom + dto)
        if not ok:
            ctx.disagree("history class reads blocks/date fields the harness does not build", {"class": cls},
                         sorted(built), [blocks, dfrom, dto])


def run(ctx: Ctx):
    from translator import extract_siteinfo

    extract_siteinfo.write()
    ctx.proof = common.prove("C18")
    mods = _mods()
    drv = ctx.driver
    rng = ctx.rng
    structural(ctx, mods)
    ctx.rule = ("a case = one in-memory SINEX or SSC source dict (1-3 stations, lower/upper/mixed-case keys, every block "
                "with 0..8 contiguous/gapped/30-s-gapped/open-ended/duplicated/overlapping/empty intervals, blocks "
                "absent, empty source) + a sequence of queries on that ONE dict (module or SiteInfo, get/get_history, "
                "stations as padded comma text, list, tuple, set, dict keys, numpy array, generator, map, filter, iterator or reversed object in random letter case, known/unknown, dates on every boundary "
                "±1 µs ±1 s, midpoints, gaps, before/after, datetime.min/max, 'last', None; some queries repeated); "
                "plus a fixed boundary set over 6 history shapes × 2 sources × 2 key cases. Non-trivial: the source "
                "has at least one interval and a query has a date; distinct by canonical JSON of the case")
    ctx.trusted += ["site-information objects are observed through a tag planted in every source record (`_tag`)",
                    "str.lower/upper/strip/split modelled on ASCII station names only",
                    "m3g (web API) source not modelled: the property names the SINEX and SSC sources"]
    ctx.assumptions += ["station names are ASCII; list-form station names carry no blanks or commas",
                        "source dictionaries have the structure the sinex_site / ssc_site parsers produce (built in memory)"]

    corpus = common.VERIF / "corpus" / "C18"
    cases = []
    if corpus.exists():
        for f in sorted(corpus.glob("*.json")):
            cases.append(json.loads(f.read_text()))
    ncorpus = len(cases)
    cases += systematic_cases()
    nq = 10 if not ctx.thorough else 14
    for _ in range(ctx.budget(2000, 26000)):
        cases.append(gen_case(rng, rng.randint(3, nq)))
    for i, case in enumerate(cases):
        nontrivial = any(source_intervals(s, case["kind"]) for s in case["source"]) and any(
            q["date"] is not None for q in case["queries"])
        ctx.case(case if len(json.dumps(case)) < 2500 else
                 {"digest": common.digest(case), "kind": case["kind"], "label": case.get("label"),
                  "stations": [s["key"] for s in case["source"]],
                  "intervals": [len(source_intervals(s, case["kind"])) for s in case["source"]],
                  "first_queries": case["queries"][:3], "n_queries": len(case["queries"])},
                 nontrivial=nontrivial)
        ctx.count(f"kind={case['kind']}")
        count_shapes(ctx, case)
        ctx.count("corpus" if i < ncorpus else "systematic" if "label" in case else "random")
        check_case(ctx, drv, mods, case, rng)
        ctx.traces += len(case["queries"])
        ctx.count("queries", len(case["queries"]))
    parsed_files(ctx, drv, mods)
    sinex_text_cases(ctx, drv, mods)


def parsed_files(ctx, drv, mods):
    """the repository's own example files through the real parsers (tags planted into the parsed
    dictionaries): SiteInfo.get for every station on every boundary of its histories"""
    from midgard import parsers

    ex = common.REPO / "tests" / "parsers" / "example_files"
    for kind, pname, fname in (("snx", "sinex_site", "sinex_site"), ("ssc", "ssc_site", "ssc_site")):
        path = ex / fname
        if not path.exists():
            ctx.count("example-file-missing")
            continue
        try:
            data = parsers.parse_file(parser_name=pname, file_path=path).as_dict()
            stations = sorted(data)[: (40 if ctx.thorough else 8)]
            data = {k: data[k] for k in stations}
            source = abstract_and_tag(kind, data)
        except Exception as exn:  # noqa: BLE001 - a file the parser cannot read is C14's business
            ctx.count(f"example-file-unusable:{type(exn).__name__}")
            continue
        queries = []
        for st in source:
            dates = interesting_dates(None, source_intervals(st, kind))
            if not ctx.thorough:
                dates = dates[:: max(1, len(dates) // 12)]
            for d in dates + ["last"]:
                queries.append({"mod": "all", "op": "get", "stations": {"form": "text", "value": st["key"].upper()}, "date": d})
            queries.append({"mod": "all", "op": "hist", "stations": {"form": "list", "value": [st["key"]]}, "date": None})
        case = {"kind": kind, "source": source, "queries": queries, "label": f"example-file:{fname}"}
        ctx.case({"example": fname, "stations": stations})
        ctx.count(f"example-file:{fname}")
        check_case(ctx, drv, mods, case, ctx.rng, given=data)
        ctx.traces += len(queries)
        ctx.count("queries", len(queries))


# ------------------------------------------------------------------------------------------------
# end to end: generated SINEX text -> sinex_site parser -> site_info modules


def snx_epoch_rule(yy, doy, sod):
    """the SINEX rule for an epoch `YY:DDD:SSSSS` (SINEX 2.02, 1.4/1.5): `00:000:00000` is an open epoch; YY > 50 is the
    year 19YY, else 20YY; a day of year 000 stands for day 001"""
    if (yy, doy, sod) == (0, 0, 0):
        return None
    return datetime(1900 + yy if yy > 50 else 2000 + yy, 1, 1) + timedelta(days=max(doy, 1) - 1, seconds=sod)


def snx_print(ep):
    return "%02d:%03d:%05d" % ep


def gen_snx_boundaries(rng, n):
    """n + 1 printed epochs, strictly increasing by the SINEX rule, rich in day-of-year 000 / 001 / last second of a year,
    around the 50/51 pivot of the two-digit year; pairs (end of interval i, start of interval i + 1)"""
    year = rng.choice([1951, 1951, 1994, 1998, 1999, 2000, 2003, 2019, 2044, 2048])
    t = None
    out = []  # (start epoch, end epoch) per interval
    start = None
    for i in range(n + 1):
        form = rng.choice(["doy000", "doy000", "doy001", "yearend", "random", "random"])
        if t is not None and year > 2050:
            break
        yy = year % 100
        leap = year % 4 == 0 and (year % 100 != 0 or year % 400 == 0)
        if form == "doy000":
            ep = (yy, 0, rng.choice([0, 0, 0, 43200]))
        elif form == "doy001":
            ep = (yy, 1, rng.choice([0, 0, 1]))
        elif form == "yearend":
            ep = (yy, 366 if leap else 365, rng.choice([86399, 86399, 86370]))
        else:
            ep = (yy, rng.randint(2, 364), rng.choice([0, 32400, rng.randint(0, 86399)]))
        inst = snx_epoch_rule(*ep)
        if inst is None or (t is not None and inst <= t):
            year += 1
            continue
        if start is not None:
            out.append((start, ep))
        # the next interval starts where this one ends, or after a gap (typically: last second of the year / day 000 of the next)
        if form == "yearend" and rng.random() < 0.8 and year < 2050:
            year += 1
            nxt = ((year % 100), rng.choice([0, 0, 1]), 0)
            start, t = nxt, snx_epoch_rule(*nxt)
        else:
            start, t = ep, inst
            year += rng.choice([0, 0, 1, 1, 2, 5])
    return out


def gen_snx_text_case(rng):
    """a SINEX text with SITE/ID and SITE/RECEIVER / ANTENNA / ECCENTRICITY histories for 1-2 stations, the abstract
    source the printed epochs stand for by the SINEX rules, and the records in file order (for planting the tags)"""
    tag = Tags()
    names = rng.sample(["osls", "trds", "nyal", "brux"], rng.randint(1, 2))
    lines = {"SITE/ID": [], "SITE/RECEIVER": [], "SITE/ANTENNA": [], "SITE/ECCENTRICITY": []}
    source, order = [], {}
    for nm in names:
        code = nm if rng.random() < 0.5 else nm.upper()
        lines["SITE/ID"].append(f" {code}  A 10307M001 P {'Somewhere, Norway':<22} 10 22  3.5  59 44 11.6   221.0")
        st = {"key": code, "sid": tag(), "epochs": None, "est": None}
        for b, blk in (("rcv", "SITE/RECEIVER"), ("ant", "SITE/ANTENNA"), ("ecc", "SITE/ECCENTRICITY")):
            ivs = gen_snx_boundaries(rng, rng.randint(1, 4))
            if ivs and rng.random() < 0.3:
                ivs[0] = ((0, 0, 0), ivs[0][1])  # open start
            if ivs and rng.random() < 0.4:
                ivs[-1] = (ivs[-1][0], (0, 0, 0))  # open end
            rows = []
            for j, (a, e) in enumerate(ivs):
                head = f" {code}  A ---- P {snx_print(a)} {snx_print(e)} "
                if b == "rcv":
                    lines[blk].append(head + f"{'TRIMBLE NETR9':<20} S{j:04d} {'5.45':<11}")
                elif b == "ant":
                    lines[blk].append(head + f"{'ASH701945E_M    NONE':<20} A{j:04d}")
                else:
                    lines[blk].append(head + "UNE %8.4f %8.4f %8.4f" % (0.0001 * (j + 1), 0.001, 0.0))
                sa, se = snx_epoch_rule(*a), snx_epoch_rule(*e)
                rows.append([None if sa is None else us_of(sa), None if se is None else us_of(se), tag()])
            st[b] = rows
        source.append(st)
    text = "%=SNX 2.01 IGS 20:316:15732 IGS 00:000:00000 00:000:00000 P 00000 0\n"
    for blk, ls in lines.items():
        text += f"+{blk}\n" + "".join(l + "\n" for l in ls) + f"-{blk}\n"
    return text + "%ENDSNX\n", source


def sinex_text_cases(ctx, drv, mods):
    """generated SINEX text through the real `sinex_site` parser into the site_info modules: the histories the modules
    answer from are those the *printed* epochs stand for by the SINEX rules (day of year 000 = 001, two-digit years around
    the 50/51 pivot, 00:000:00000 open), asked within a day and a second of every boundary"""
    import tempfile

    from midgard import parsers

    rng = ctx.rng
    tmp = tempfile.mkdtemp(prefix="c18-snx-")
    try:
        for n in range(ctx.budget(60, 800)):
            text, source = gen_snx_text_case(rng)
            path = os.path.join(tmp, f"g{n}.snx")
            with open(path, "w") as fid:
                fid.write(text)
            try:
                data = parsers.parse_file(parser_name="sinex_site", file_path=path).as_dict()
            except Exception as exn:  # noqa: BLE001
                ctx.violate(f"sinex-text:parser-raises:{type(exn).__name__}", f"sinex_site raised {type(exn).__name__}: {exn}", {"text": text})
                continue
            # plant the tags: the parser keeps the records of a block in file order
            ok = True
            for st in source:
                d = data.get(st["key"]) or data.get(st["key"].lower()) or data.get(st["key"].upper())
                if d is None:
                    ok = False
                    break
                d.get("site_id", {})["_tag"] = st["sid"]
                for b, blk in (("rcv", "site_receiver"), ("ant", "site_antenna"), ("ecc", "site_eccentricity")):
                    recs = d.get(blk, [])
                    if blk not in d and not st[b]:
                        st[b] = None  # no line of the block names the station: the block is absent for it
                        continue
                    if len(recs) != len(st[b]):
                        ok = False
                        continue
                    for rec, row in zip(recs, st[b]):
                        rec["_tag"] = row[2]
                st["key"] = next(k for k in data if k.lower() == st["key"].lower())
            if not ok:
                ctx.violate("sinex-text:records-lost", "the parsed dictionary does not hold the records of the text", {"text": text})
                continue
            queries = []
            for st in source:
                bounds = sorted({x for b in ("rcv", "ant", "ecc") for r in (st[b] or []) for x in r[:2] if x is not None})
                dates = sorted({min(max(x + d_, 0), DMAX) for x in bounds
                                for d_ in (0, 10**6, -(10**6), 86400 * 10**6, -86400 * 10**6, 43200 * 10**6, -43200 * 10**6)})
                if not ctx.thorough:
                    dates = dates[:: max(1, len(dates) // 16)]
                for mod in ("receiver", "antenna", "eccentricity", "all"):
                    for d_ in (dates if mod != "all" else dates[::3]) + ["last"]:
                        queries.append({"mod": mod, "op": "get", "stations": {"form": "list", "value": [st["key"].upper()]}, "date": d_})
                queries.append({"mod": "all", "op": "hist", "stations": {"form": "text", "value": st["key"]}, "date": None})
            case = {"kind": "snx", "source": source, "queries": queries, "label": "sinex-text", "text": text}
            ctx.case({"digest": common.digest(text), "sinex-text": [st["key"] for st in source]})
            ctx.count("sinex-text")
            for feat, pat in (("doy000", "(?<!00):000:"), ("doy001", ":001:"), ("yearend", ":86399"), ("open", "00:000:00000"),
                              ("year>50", " 5[1-9]:| [6-9]\\d:"), ("year<=50", " [0-4]\\d:| 50:")):
                import re as _re

                if _re.search(pat, text.split("+SITE/RECEIVER")[1]):
                    ctx.count("sinex-text:" + feat)
            check_case(ctx, drv, mods, case, None, given=data)
            ctx.traces += len(queries)
            ctx.count("queries", len(queries))
    finally:
        import shutil

        shutil.rmtree(tmp, ignore_errors=True)


def abstract_and_tag(kind, data):
    """abstract description of a parsed example file; the tags are planted into the parsed records"""
    tag = Tags()
    solns = {}

    def soln(x):
        return solns.setdefault(str(x), len(solns) + 1)

    def usn(x):
        return None if not x else us_of(x)

    def plant(rec):
        rec["_tag"] = tag()
        return rec["_tag"]

    out = []
    for key, d in data.items():
        if kind == "snx":
            st = {"key": key}
            for b, blk in (("ant", "site_antenna"), ("rcv", "site_receiver"), ("ecc", "site_eccentricity")):
                st[b] = None if blk not in d else [[usn(r["start_time"]), usn(r["end_time"]), plant(r)] for r in d[blk]]
            st["sid"] = plant(d["site_id"]) if "site_id" in d else None
            st["epochs"] = None if "solution_epochs" not in d else [
                [soln(r["soln"]), usn(r["start_epoch"]), usn(r["end_epoch"]), plant(r)] for r in d["solution_epochs"]]
            st["est"] = None
            if "solution_estimate" in d:
                names = {r["param_name"] for r in d["solution_estimate"]}
                if not names <= set(PNAMES):
                    raise ValueError(f"parameters outside the model: {sorted(names - set(PNAMES))}")
                st["est"] = [[soln(r["soln"]), PNAMES.index(r["param_name"]), plant(r)] for r in d["solution_estimate"]]
            out.append(st)
        else:
            out.append({"key": key, "tag": plant(d), "pv": [
                [int(sn), usn(r["start"]), usn(r["end"]), plant(r)] for sn, r in d["pos_vel"].items()]})
    return out


def replay(payload):
    """re-run the stored case (query sequence on one shared source dict) against the real code"""
    rp = payload.get("replay", payload)
    case = rp["case"] if "case" in rp else rp
    mods = _mods()
    import random

    given = None
    if case.get("text"):  # a generated SINEX text: through the real parser again, tags planted in file order
        import tempfile

        from midgard import parsers

        with tempfile.TemporaryDirectory() as tmp:
            path = os.path.join(tmp, "replay.snx")
            with open(path, "w") as fid:
                fid.write(case["text"])
            given = parsers.parse_file(parser_name="sinex_site", file_path=path).as_dict()
        for st in case["source"]:
            d = given[st["key"]]
            d.get("site_id", {})["_tag"] = st["sid"]
            for b, blk in (("rcv", "site_receiver"), ("ant", "site_antenna"), ("ecc", "site_eccentricity")):
                for rec, row in zip(d.get(blk, []), st[b] or []):
                    rec["_tag"] = row[2]
    rep = check_case(None, None, mods, case, None if given is not None else random.Random(0), given=given)
    want = payload.get("key")
    hits = [h for h in rep.hits if want is None or h[0] == want]
    print(f"case: kind={case['kind']} stations={[s['key'] for s in case['source']]} queries={len(case['queries'])}")
    for k, what, qi in hits[:10]:
        print(f"VIOLATION reproduced key={k} query[{qi}]={json.dumps(case['queries'][qi])}\n  {what}")
    if not hits:
        print("no violation on the current tree for this case")
    return 1 if hits else 0
