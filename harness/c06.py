"""C06 — local-frame conversions are proper rotations tied to the geodetic normal.

translate:   translator/extract_geodesy.py → Generated/PositionSystems.lean (registered conversion graph),
             Generated/Ellipsoids.lean; translator/extract_frames.py → Generated/SourceFrames.lean (the frame properties of
             _position.py and the six delta_* conversions as functions of position objects, from the `ast`)
prove:       lean/Midgard/Props/C06.lean — rotation algebra for every (c, s) with c² + s² = 1 over any commutative
             ring, the ENU triad tied to the ellipsoid normal, the ACR triad, block-diagonal 6×6 variants, angle
             addition / derivatives over ℝ
correspond:  rotation.R1..dR3, enu2trs, trs2enu, PositionDelta/PosVelDelta conversions (enu, acr), trs2acr/acr2trs,
             azimuth/elevation/zenith distance of the real code vs the compiled model:
               * `Rat`  — the algebraic part on the exact rationals of NumPy's cos/sin values: entries must be the
                          correctly rounded model entries (exact equality)
               * `Float`— the whole chain through libm, ≤ 2 ulp per entry
oracle:      the property stated on the real code: orthonormality, det = +1, R(-a) = R(a)^T, R(a)R(b) = R(a+b),
             dR = d/da R (central differences), norm/angle preservation and round trip < 1e-9 relative, Up = ellipsoid
             normal (height changes by exactly the displacement along Up; parallel to the quadric's gradient),
             East ⟂ z-axis and Up, North = Up × East, ACR triad orthonormal / right-handed / radial = r̂,
             az/el/zd = angles of the target in the triad, identical results for shapes (k,), (1,k), (n,k);
             rows are independent (first and last row of an array converted on their own, both directions, also for
             reference positions 1e-3..10 m / orbit states 0.1..10 ms apart); the frame, llh, az/el/zd and converted
             components of `array[i | -i | np.int | a:b | ::s | list | int array | mask]` are those of the same rows of
             the array, on every registered ellipsoid; broadcasting: (k,), (1,k), (n,k), (m,k) reference positions /
             states / observers against (k,), (1,k), (n,k), (m,k) values / targets and scalar / (n,) angles are accepted
             with the model's rows or refused (ValueError) on both sides; a single reference position is the frame of
             every row; vector = target - observer for an observer given in TRS; observers on user-built ellipsoids (two
             definitions with equal names and different axes, equal axes and different names, the same coordinates on both
             in both orders): the triad, the up component and the elevation belong to the parameters of *that* ellipsoid
"""
from __future__ import annotations

import math
from fractions import Fraction

import numpy as np

from . import common
from .common import Ctx, frac
from .geo_common import disagree as gdisagree, violate as gviolate, leancheck, run_corpus
from .geo_common import (PI, allclose, as_shape, close, fbits, fline, floats, gen_angle, gen_lat, gen_lon, gen_vec,
                         qline, rats, rows_of, ulps, unit_dir, worst)

REL = 1e-9  # the property's own tolerance


def _imp():
    from midgard.data.position import Position, PositionDelta, PosVel, PosVelDelta
    from midgard.math import ellipsoid, rotation, transformation

    return Position, PositionDelta, PosVel, PosVelDelta, ellipsoid, rotation, transformation


def translate():
    from translator import extract_frames, extract_geodesy

    out = extract_geodesy.write_all()
    changed, info = extract_frames.generate()    # frame properties of _position.py / delta conversions, from the `ast`
    out["SourceFrames.lean"] = changed
    out["frame_functions_translated"] = len(info["translated"])
    out["frame_functions_not_translated"] = info["not_translated"]
    return out


# --------------------------------------------------------------------------------------------------
# exact helpers on float matrices


def fmat(m):
    return [[frac(x) for x in row] for row in np.asarray(m, dtype=float)]


def mmul(a, b):
    return [[sum(a[i][k] * b[k][j] for k in range(3)) for j in range(3)] for i in range(3)]


def mT(a):
    return [[a[j][i] for j in range(3)] for i in range(3)]


def det3(a):
    return (a[0][0] * (a[1][1] * a[2][2] - a[1][2] * a[2][1]) - a[0][1] * (a[1][0] * a[2][2] - a[1][2] * a[2][0])
            + a[0][2] * (a[1][0] * a[2][1] - a[1][1] * a[2][0]))


def is_rotation(m, tol=Fraction(1, 10**14)) -> str:
    """'' when m^T m = I and det m = 1 within tol (exact arithmetic on the stored doubles)"""
    a = fmat(m)
    p = mmul(mT(a), a)
    for i in range(3):
        for j in range(3):
            if abs(p[i][j] - (1 if i == j else 0)) > tol:
                return f"(M^T M)[{i}][{j}] = {float(p[i][j])!r}"
    d = det3(a)
    if abs(d - 1) > tol:
        return f"det = {float(d)!r}"
    return ""


def np_det(m):
    return float(det3(fmat(m)))


# --------------------------------------------------------------------------------------------------


def run(ctx: Ctx):
    ctx.extra["translated"] = translate()
    ctx.proof = common.prove("C06")
    leancheck(ctx, "C06")
    ctx.rule = ("axis rotations: angles in [-4pi, 4pi] (multiples of pi/4, near-multiples, tiny, random) x 3 axes x "
                "scalar/list/(n,) inputs; frames: reference positions at all latitudes incl. exact poles/equator and "
                "longitudes incl. +-pi on the 7 registered ellipsoids, given in trs or llh, heights -100 km..50 000 km; "
                "difference vectors zero / axis-aligned / 1e-9..1e8 m in every octant; orbit states with non-parallel "
                "r, v (incl. nearly parallel, retrograde); shapes (k,), (1,k), (n,k); 30 % of the arrays have reference rows that "
                "are 1e-3..10 m (orbit states: 0.1..10 ms of motion) apart; rows taken from arrays of 2..6 rows with an int, "
                "negative int, np.int_, slice, stepped/reversed slice, list, int array or boolean mask, array-level properties read "
                "before or after the rows; broadcasting: (k,), (1,k), (n,k), (m,k) reference positions / observers / states against "
                "(k,), (1,k), (n,k), (m,k) values / targets and scalar or (n,) latitudes against scalar or (n,) longitudes (accepted "
                "or refused on both sides); vector/distance/direction of observers given in trs and in llh; observers on ellipsoids the user "
                "defines (historic ellipsoids, a sphere, slightly corrected parameters) twice under one name / under two names, the same "
                "coordinates converted on both in either order and back on the first. A case is non-trivial when the "
                "angle / vector is non-zero; distinct by canonical input values.")
    ctx.trusted += ["floating-point error is measured on the sampled inputs (<= 2 ulp per matrix entry against the Float "
                    "model, exact equality against the Rat model of the algebraic part), not proved",
                    "libm sin/cos/atan2/asin (principal ranges) trusted",
                    "NumPy broadcasting over the leading axis modelled as map over rows",
                    "translator/extract_geodesy.py (import of midgard.data.position: registered conversion graph)",
                    "translator/extract_frames.py (a ~300-line symbolic evaluator of the frame properties over position objects; "
                    "refuses anything outside its fragment)"]
    ctx.assumptions += ["model inputs are the exact doubles the implementation was given"]
    run_corpus(ctx, "C06", lambda c: corpus_case(ctx, c))
    check_axis_rotations(ctx)
    check_enu_matrices(ctx)
    check_position_frames(ctx)
    check_histories(ctx)
    check_indexed_frames(ctx)
    check_broadcast(ctx)
    check_user_ellipsoids(ctx)
    check_acr(ctx)
    check_azel(ctx)
    ctx.traces = ctx.evaluations


def corpus_case(ctx, c):
    *_, ellipsoid, rotation, T = _imp()
    case = {"fn": "corpus", **c}
    ctx.case(case)
    try:
        if c.get("kind") == "acr":
            one_acr(ctx, case, c["shape"], [tuple(s) for s in c["states"]], c["delta"])
        elif c.get("kind") == "user-ellipsoids":
            one_user_ellipsoids(ctx, case)
        elif c.get("kind") == "rows" and c["ellipsoid"] in ellipsoid._ELLIPSOIDS:
            trs_rows = [np.asarray(T.llh2trs(np.array(r, dtype=float), ellipsoid.get(c["ellipsoid"])), dtype=float).reshape(-1, 3)[0].tolist() for r in c["ref_llh"]]
            one_indexed(ctx, {**case, "ref_trs": trs_rows})
        elif c.get("kind") == "frame" and c["ellipsoid"] in ellipsoid._ELLIPSOIDS:
            E = ellipsoid.get(c["ellipsoid"])
            trs_rows = [np.asarray(T.llh2trs(np.array(r, dtype=float), E), dtype=float).reshape(-1, 3)[0].tolist() for r in c["ref_llh"]]
            one_frame(ctx, case, c["ellipsoid"], E, c["shape"], c["ref_sys"], c["ref_llh"], trs_rows, c["delta"], c.get("dvel") or [[0.0, 0.0, 0.0]] * len(trs_rows), bool(c.get("dvel")))
    except Exception as e:
        gviolate(ctx, f"raises:corpus:{type(e).__name__}", f"corpus case raised {type(e).__name__}: {e}", case)


# --------------------------------------------------------------------------------------------------
# R1..R3, dR1..dR3


def check_axis_rotations(ctx: Ctx):
    _, _, _, _, _, rotation, _ = _imp()
    drv, rng = ctx.driver, ctx.rng
    n = ctx.budget(600, 12000)
    for _ in range(n):
        k = rng.choice("123")
        kind = rng.choice(["scalar", "scalar", "array", "list", "int", "intlist", "intarray"])
        m = 1 if kind in ("scalar", "int") else rng.randint(1, 4)
        angles = [gen_angle(rng) for _ in range(m)]
        if kind.startswith("int"):
            # angles given with an integer type (a whole number of radians): the docstring's own example is R1([0, 1])
            angles = [float(rng.randint(-12, 12)) for _ in range(m)]
        elif kind == "float32array":
            angles = [float(np.float32(a)) for a in angles]
        b = gen_angle(rng)
        case = {"fn": "R" + k, "input": kind, "angles": angles, "b": b}
        ctx.case(case, nontrivial=any(a != 0 for a in angles))
        ctx.count(f"R{k}")
        ctx.count(f"input={kind}")
        arg = {"scalar": lambda: angles[0], "array": lambda: np.array(angles), "list": lambda: list(angles),
               "int": lambda: int(angles[0]), "intlist": lambda: [int(a) for a in angles],
               "intarray": lambda: np.array([int(a) for a in angles]),
               "float32array": lambda: np.array(angles, dtype=np.float32)}[kind]()
        R = getattr(rotation, "R" + k)
        dR = getattr(rotation, "dR" + k)
        try:
            mats = np.asarray(R(arg), dtype=float)
            dmats = np.asarray(dR(arg), dtype=float)
        except Exception as e:
            gviolate(ctx, f"raises:R{k}:{kind}", f"rotation.R{k}/dR{k} raised {type(e).__name__}: {e}", case)
            continue
        want_shape = (3, 3) if kind in ("scalar", "int") else (m, 3, 3)
        if mats.shape != want_shape or dmats.shape != want_shape:
            gviolate(ctx, f"shape:R{k}:{kind}", f"R{k}({kind} of {m}) has shape {mats.shape}, dR {dmats.shape}; expected {want_shape}", case)
            continue
        mats = mats.reshape(-1, 3, 3)
        dmats = dmats.reshape(-1, 3, 3)
        # ---- correspondence
        lines = []
        for a in angles:
            c, s = float(np.cos(a)), float(np.sin(a))
            lines += [f"c06 f R {k} {fbits(a)}", f"c06 f dR {k} {fbits(a)}",
                      f"c06 q Rcs {k} {qline(c, s)}", f"c06 q dRcs {k} {qline(c, s)}"]
        ans = drv.ask(lines)
        for i, a in enumerate(angles):
            fR, fdR, qR, qdR = ans[4 * i: 4 * i + 4]
            if not allclose(mats[i].ravel(), floats(fR), ulp=2):
                gdisagree(ctx, f"rotation.R{k} (Float model)", {**case, "i": i}, floats(fR), mats[i].ravel().tolist())
            if not allclose(dmats[i].ravel(), floats(fdR), ulp=2):
                gdisagree(ctx, f"rotation.dR{k} (Float model)", {**case, "i": i}, floats(fdR), dmats[i].ravel().tolist())
            if [frac(x) for x in mats[i].ravel()] != rats(qR):
                gdisagree(ctx, f"rotation.R{k} (Rat model on NumPy's cos/sin)", {**case, "i": i}, qR, mats[i].ravel().tolist())
            if [frac(x) for x in dmats[i].ravel()] != rats(qdR):
                gdisagree(ctx, f"rotation.dR{k} (Rat model on NumPy's cos/sin)", {**case, "i": i}, qdR, dmats[i].ravel().tolist())
        # ---- oracle
        for i, a in enumerate(angles):
            M = mats[i]
            why = is_rotation(M)
            if why:
                gviolate(ctx, f"proper-rotation:R{k}", f"R{k}({a!r}) is not a proper rotation: {why}", {**case, "i": i})
            Mn = np.asarray(R(-a), dtype=float)
            if not np.array_equal(Mn, M.T):
                gviolate(ctx, f"R(-a)=R(a)^T:R{k}", f"R{k}(-a) != R{k}(a)^T at a={a!r}", {**case, "i": i})
            Mb = np.asarray(R(b), dtype=float)
            Mab = np.asarray(R(a + b), dtype=float)
            prod = np.array([[float(x) for x in row] for row in mmul(fmat(M), fmat(Mb))])
            if np.max(np.abs(prod - Mab)) > 2e-14:
                gviolate(ctx, f"R(a)R(b)=R(a+b):R{k}", f"R{k}(a)R{k}(b) differs from R{k}(a+b) by {np.max(np.abs(prod - Mab)):.2e} at a={a!r}, b={b!r}", {**case, "i": i})
            h = 1e-6
            num = (np.asarray(R(a + h), dtype=float) - np.asarray(R(a - h), dtype=float)) / (2 * h)
            if np.max(np.abs(num - dmats[i])) > 1e-8:
                gviolate(ctx, f"dR=d/da R:dR{k}", f"dR{k}({a!r}) differs from the central difference of R{k} by {np.max(np.abs(num - dmats[i])):.2e}", {**case, "i": i})


# --------------------------------------------------------------------------------------------------
# rotation.enu2trs / trs2enu


def check_enu_matrices(ctx: Ctx):
    _, _, _, _, _, rotation, _ = _imp()
    drv, rng = ctx.driver, ctx.rng
    n = ctx.budget(500, 10000)
    for _ in range(n):
        kind = rng.choice(["scalar", "array"])
        m = 1 if kind == "scalar" else rng.randint(1, 4)
        lats = [gen_lat(rng) for _ in range(m)]
        lons = [gen_lon(rng) if rng.random() < 0.8 else gen_angle(rng) for _ in range(m)]
        case = {"fn": "enu2trs/trs2enu", "input": kind, "lat": lats, "lon": lons}
        ctx.case(case, nontrivial=True)
        ctx.count("enu-matrix")
        ctx.count("lat=pole" if any(abs(abs(x) - PI / 2) < 1e-12 for x in lats) else ("lat<0" if lats[0] < 0 else "lat>=0"))
        la = lats[0] if kind == "scalar" else np.array(lats)
        lo = lons[0] if kind == "scalar" else np.array(lons)
        try:
            e2t = np.asarray(rotation.enu2trs(la, lo), dtype=float)
            t2e = np.asarray(rotation.trs2enu(la, lo), dtype=float)
        except Exception as e:
            gviolate(ctx, f"raises:enu2trs:{kind}", f"rotation.enu2trs/trs2enu raised {type(e).__name__}: {e}", case)
            continue
        want_shape = (3, 3) if kind in ("scalar", "int") else (m, 3, 3)
        if e2t.shape != want_shape or t2e.shape != want_shape:
            gviolate(ctx, f"shape:enu2trs:{kind}", f"enu2trs has shape {e2t.shape}, trs2enu {t2e.shape}; expected {want_shape}", case)
            continue
        e2t = e2t.reshape(-1, 3, 3)
        t2e = t2e.reshape(-1, 3, 3)
        lines = []
        for la_, lo_ in zip(lats, lons):
            cs = (float(np.cos(la_)), float(np.sin(la_)), float(np.cos(lo_)), float(np.sin(lo_)))
            lines += [f"c06 f enu2trs {fline(la_, lo_)}", f"c06 f trs2enu {fline(la_, lo_)}",
                      f"c06 q enu2trsCS {qline(*cs)}", f"c06 q trs2enuCS {qline(*cs)}"]
        ans = drv.ask(lines)
        for i in range(m):
            fe, ft, qe, qt = ans[4 * i: 4 * i + 4]
            if not allclose(e2t[i].ravel(), floats(fe), ulp=2):
                gdisagree(ctx, "rotation.enu2trs (Float model)", {**case, "i": i}, floats(fe), e2t[i].ravel().tolist())
            if not allclose(t2e[i].ravel(), floats(ft), ulp=2):
                gdisagree(ctx, "rotation.trs2enu (Float model)", {**case, "i": i}, floats(ft), t2e[i].ravel().tolist())
            # the algebraic part, exactly: each entry is the correctly rounded product of NumPy's cos/sin values
            if [float(q) for q in rats(qe)] != [float(x) for x in e2t[i].ravel()]:
                gdisagree(ctx, "rotation.enu2trs (Rat model on NumPy's cos/sin)", {**case, "i": i}, qe, e2t[i].ravel().tolist())
            if [float(q) for q in rats(qt)] != [float(x) for x in t2e[i].ravel()]:
                gdisagree(ctx, "rotation.trs2enu (Rat model on NumPy's cos/sin)", {**case, "i": i}, qt, t2e[i].ravel().tolist())
            # oracle
            for name, M in (("enu2trs", e2t[i]), ("trs2enu", t2e[i])):
                why = is_rotation(M)
                if why:
                    gviolate(ctx, f"proper-rotation:{name}", f"rotation.{name}(lat={lats[i]!r}, lon={lons[i]!r}) is not a proper rotation: {why}", {**case, "i": i})
            if not np.array_equal(e2t[i].T, t2e[i]):
                gviolate(ctx, "trs2enu=enu2trs^T", f"trs2enu != enu2trs^T at lat={lats[i]!r}, lon={lons[i]!r}", {**case, "i": i})
            triad_oracle(ctx, e2t[i], lats[i], lons[i], {**case, "i": i}, "rotation.enu2trs")


def triad_oracle(ctx, e2t, lat, lon, case, where, lat_tol=0.0, lon_tol=0.0):
    """columns of enu2trs: Up = (cos lat cos lon, cos lat sin lon, sin lat); East ⟂ z and Up; North = Up × East.
    (lat, lon) are the true geodetic coordinates of the reference position, known to lat_tol / lon_tol radians."""
    east, north, up = e2t[:, 0], e2t[:, 1], e2t[:, 2]
    n_hat = np.array([math.cos(lat) * math.cos(lon), math.cos(lat) * math.sin(lon), math.sin(lat)])
    if np.max(np.abs(up - n_hat)) > 4e-16 + lat_tol + lon_tol * abs(math.cos(lat)):
        gviolate(ctx, "up=normal(lat,lon)", f"{where}: Up column {up.tolist()} is not (cos lat cos lon, cos lat sin lon, sin lat) at lat={lat!r}, lon={lon!r}", case)
    if east[2] != 0 or abs(float(np.dot(east, up))) > 4e-16:
        gviolate(ctx, "east-perp-axis-and-up", f"{where}: East {east.tolist()} is not perpendicular to the z axis and Up", case)
    if np.max(np.abs(np.cross(up, east) - north)) > 4e-16:
        gviolate(ctx, "north=up x east", f"{where}: North {north.tolist()} != Up x East", case)
    # East points towards increasing longitude: (-sin lon, cos lon, 0)
    if lon_tol < 1e-3 and np.max(np.abs(east - np.array([-math.sin(lon), math.cos(lon), 0.0]))) > 4e-16 + lon_tol:
        gviolate(ctx, "east=d/dlon", f"{where}: East {east.tolist()} is not (-sin lon, cos lon, 0)", case)


# --------------------------------------------------------------------------------------------------
# Position.trs2enu / enu2trs / enu_east.., PositionDelta and PosVelDelta conversions


def gen_ref_llh(rng):
    lat, lon = gen_lat(rng), gen_lon(rng)
    h = rng.choice([0.0, rng.uniform(-1e5, 1e5), rng.uniform(1e5, 5e7)])
    return [lat, lon, h]


def near_rows(rng, E, llh0, m):
    """m geodetic positions: llh0 and m-1 others that are 1e-3 .. 10 m away from it (all different)"""
    lat0, lon0, h0 = llh0
    rows = [list(llh0)]
    R = E.a + h0
    for i in range(1, m):
        d = 10.0 ** rng.uniform(-3, 1) * (i if rng.random() < 0.5 else 1)
        u = unit_dir(rng)
        lat = min(PI / 2, max(-PI / 2, lat0 + d * u[1] / R))
        lon = lon0 + d * u[0] / max(R * abs(math.cos(lat0)), 1.0)
        lon = (lon + PI) % (2 * PI) - PI if abs(lon) > PI else lon
        rows.append([lat, lon, h0 + d * u[2]])
    return rows


def check_position_frames(ctx: Ctx):
    Position, PositionDelta, PosVel, PosVelDelta, ellipsoid, rotation, T = _imp()
    drv, rng = ctx.driver, ctx.rng
    names = list(ellipsoid._ELLIPSOIDS)
    n = ctx.budget(250, 10000)
    for _ in range(n):
        ell = rng.choice(names)
        E = ellipsoid.get(ell)
        m = rng.choice([1, 1, 1, 2, 3, 5])
        shape = rng.choice(["1d", "1xk"]) if m == 1 else "nxk"
        llh_rows = [gen_ref_llh(rng) for _ in range(m)]
        near = rng.random() < 0.3
        if near:
            # a slowly moving receiver: every row a different reference position, 1e-3 .. 10 m from the first one
            m, shape = max(m, rng.choice([2, 3, 6])), "nxk"
            llh_rows = near_rows(rng, E, llh_rows[0], m)
        ref_sys = rng.choice(["trs", "llh"])
        trs_rows = [np.asarray(T.llh2trs(np.array(r), E), dtype=float).reshape(-1, 3)[0].tolist() for r in llh_rows]
        dvecs = [gen_vec(rng) for _ in range(m)]
        dvels = [gen_vec(rng, -9, 4) for _ in range(m)]
        six = rng.random() < 0.4
        case = {"fn": "delta trs<->enu", "ellipsoid": ell, "shape": shape, "ref_sys": ref_sys, "ref_llh": llh_rows,
                "ref_trs": trs_rows, "delta": dvecs, "dvel": dvels if six else None}
        ctx.case(case, nontrivial=any(any(x != 0 for x in d) for d in dvecs))
        if near:
            rows_used = np.array(trs_rows if (ref_sys == "trs" or six) else llh_rows)
            ctx.count("frame:ref rows 1e-3..10 m apart" + (" (np.allclose to row 0)" if np.allclose(rows_used, rows_used[0]) else ""))
        ctx.count(f"frame:shape={shape}")
        ctx.count(f"frame:ell={ell}")
        ctx.count("frame:posvel" if six else "frame:position")
        try:
            one_frame(ctx, case, ell, E, shape, ref_sys, llh_rows, trs_rows, dvecs, dvels, six)
        except Exception as e:
            gviolate(ctx, f"raises:frame:{type(e).__name__}", f"local-frame conversion raised {type(e).__name__}: {e}", case)


def one_frame(ctx, case, ell, E, shape, ref_sys, llh_rows, trs_rows, dvecs, dvels, six):
    Position, PositionDelta, PosVel, PosVelDelta, ellipsoid, rotation, T = _imp()
    drv = ctx.driver
    m = len(llh_rows)
    ref_rows = trs_rows if ref_sys == "trs" else llh_rows
    if six:
        # a PosVel reference needs velocities; only the position part defines the ENU frame
        vel = [[10.0, -20.0, 30.0]] * m
        if ref_sys == "llh":
            ref_sys_used = "trs"
            ref_rows = trs_rows
        else:
            ref_sys_used = ref_sys
        ref = PosVel(as_shape([list(p) + v for p, v in zip(ref_rows, vel)], shape), ref_sys_used, ellipsoid=E)
        dval = as_shape([list(d) + list(w) for d, w in zip(dvecs, dvels)], shape)
        delta = PosVelDelta(dval, "trs", ref_pos=ref)
        frame_owner = ref
    else:
        ref = Position(as_shape(ref_rows, shape), ref_sys, ellipsoid=E)
        dval = as_shape(dvecs, shape)
        delta = PositionDelta(dval, "trs", ref_pos=ref)
        frame_owner = ref
    t2e = np.asarray(frame_owner.trs2enu, dtype=float)
    e2t = np.asarray(frame_owner.enu2trs, dtype=float)
    want = (3, 3) if shape == "1d" else (m, 3, 3)
    if t2e.shape != want or e2t.shape != want:
        gviolate(ctx, f"shape:trs2enu:{shape}", f"ref_pos.trs2enu has shape {t2e.shape}, expected {want}", case)
        return
    t2e = t2e.reshape(-1, 3, 3)
    e2t = e2t.reshape(-1, 3, 3)
    enu = rows_of(np.asarray(delta.enu, dtype=float))
    back = rows_of(np.asarray(delta.enu.trs, dtype=float))
    k = 6 if six else 3
    # a (k,) input is one vector, a (1,k) input an array of one row: the result has the rows of the input
    raw_shapes = (np.asarray(delta.enu).shape, np.asarray(delta.enu.trs).shape)
    if enu.shape != (m, k) or back.shape != (m, k) or raw_shapes != (np.asarray(dval).shape,) * 2:
        gviolate(ctx, f"shape:delta.enu:{shape}", f"delta.enu / delta.enu.trs have shapes {raw_shapes} for input shape {np.asarray(dval).shape}", case)
        return
    # ---- correspondence: frame of the reference position through the trs2llh model, then the matrix product
    lines = []
    for i in range(m):
        if ref_sys == "trs" or six:
            lines.append(f"c06 f frame {ell} {fline(*trs_rows[i])}")
        else:
            lines.append(f"c06 f trs2enu {fline(llh_rows[i][0], llh_rows[i][1])}")
    ans = drv.ask(lines)
    lines2 = []
    frames = []
    for i in range(m):
        mod = floats(ans[i])
        if not allclose(t2e[i].ravel(), mod, ulp=4, abs_=1e-15):
            gdisagree(ctx, "Position.trs2enu (trs2llh + rotation.trs2enu, Float model)", {**case, "i": i}, mod, t2e[i].ravel().tolist())
        # the delta conversion itself on the implementation's own frame angles: lat, lon the code used
        lat, lon = (np.asarray(frame_owner.pos.llh.val, dtype=float).reshape(-1, 3)[i][:2]).tolist()
        cs = (float(np.cos(lat)), float(np.sin(lat)), float(np.cos(lon)), float(np.sin(lon)))
        if six:
            lines2.append(f"c06 f d6trs2enuCS {fline(*cs)} {fline(*dvecs[i], *dvels[i])}")
            lines2.append(f"c06 f d6enu2trsCS {fline(*cs)} {fline(*enu[i])}")
        else:
            lines2.append(f"c06 f dtrs2enuCS {fline(*cs)} {fline(*dvecs[i])}")
            lines2.append(f"c06 f denu2trsCS {fline(*cs)} {fline(*enu[i])}")
        frames.append((lat, lon))
    ans2 = drv.ask(lines2)
    # the array-level model (`rowsTrs2Enu` …: zipWith over the rows, every row in the frame of its own reference position)
    # is, row by row, the one-row model
    k6 = 6 if six else 3
    allrows = " ".join(str(i) for i in range(m))
    fwd = floats(drv.ask1(f"c06 f rows {'d6' if six else ''}trs2enu {m} {allrows} " + " ".join(fline(*frames[i], *dvecs[i], *(dvels[i] if six else [])) for i in range(m))))
    bwd = floats(drv.ask1(f"c06 f rows {'d6' if six else ''}enu2trs {m} {allrows} " + " ".join(fline(*frames[i], *enu[i]) for i in range(m))))
    ctx.count("model:rows(trs<->enu)")
    if fwd != [x for i in range(m) for x in floats(ans2[2 * i])] or bwd != [x for i in range(m) for x in floats(ans2[2 * i + 1])] or len(fwd) != m * k6:
        gdisagree(ctx, "array-level model rowsTrs2Enu/rowsEnu2Trs vs the one-row model", case, [fwd, bwd], [ans2])
    for i in range(m):
        full = list(dvecs[i]) + (list(dvels[i]) if six else [])
        for part in range(2 if six else 1):
            sl = slice(3 * part, 3 * part + 3)
            scale = float(np.linalg.norm(full[sl]))
            tol = 4 * scale * 2.3e-16 + 1e-300
            mod_e = fwd[k6 * i: k6 * i + k6][sl]
            mod_b = bwd[k6 * i: k6 * i + k6][sl]
            if worst(enu[i][sl], mod_e) > tol:
                gdisagree(ctx, "delta_trs2enu%s (Float model)" % ("_posvel" if six else ""), {**case, "i": i, "part": part}, mod_e, enu[i][sl].tolist())
            if worst(back[i][sl], mod_b) > tol:
                gdisagree(ctx, "delta_enu2trs%s (Float model)" % ("_posvel" if six else ""), {**case, "i": i, "part": part}, mod_b, back[i][sl].tolist())
    # ---- oracle
    for i in range(m):
        why = is_rotation(t2e[i])
        if why:
            gviolate(ctx, "proper-rotation:Position.trs2enu", f"ref_pos.trs2enu is not a proper rotation: {why}", {**case, "i": i})
        if not np.array_equal(e2t[i], t2e[i].T):
            gviolate(ctx, "Position.enu2trs=trs2enu^T", "ref_pos.enu2trs != ref_pos.trs2enu^T", {**case, "i": i})
        full = list(dvecs[i]) + (list(dvels[i]) if six else [])
        for part in range(2 if six else 1):
            sl = slice(3 * part, 3 * part + 3)
            d = np.array(full[sl])
            nd = float(np.linalg.norm(d))
            ne = float(np.linalg.norm(enu[i][sl]))
            if abs(ne - nd) > REL * nd:
                gviolate(ctx, "norm-preserved:trs->enu", f"|enu| = {ne!r} but |trs| = {nd!r}", {**case, "i": i, "part": part})
            if float(np.max(np.abs(back[i][sl] - d))) > REL * nd:
                gviolate(ctx, "roundtrip:trs->enu->trs", f"trs -> enu -> trs is off by {float(np.max(np.abs(back[i][sl] - d))):.3e} m for |d| = {nd:.3e}", {**case, "i": i, "part": part})
            # components are the projections on the triad
            east, north, up = e2t[i][:, 0], e2t[i][:, 1], e2t[i][:, 2]
            proj = np.array([np.dot(d, east), np.dot(d, north), np.dot(d, up)])
            if float(np.max(np.abs(proj - enu[i][sl]))) > REL * nd + 1e-300:
                gviolate(ctx, "enu=projections-on-triad", f"enu components {enu[i][sl].tolist()} are not the projections {proj.tolist()} on East/North/Up", {**case, "i": i, "part": part})
            # ... and the other direction on its own: the TRS vector of ENU components is e East + n North + u Up of *this* row
            comb = enu[i][sl][0] * east + enu[i][sl][1] * north + enu[i][sl][2] * up
            if float(np.max(np.abs(comb - back[i][sl]))) > REL * nd + 1e-300:
                gviolate(ctx, "trs=combination-of-triad", f"enu -> trs gives {back[i][sl].tolist()} but e*East + n*North + u*Up of the row's reference position is {comb.tolist()}", {**case, "i": i, "part": part})
        # the triad of the Position object is the geodetic one.  Ground truth: the geodetic coordinates the reference was
        # generated from (trs_rows = llh2trs(llh_rows) to ~1 ulp); when the reference is handed over in TRS the frame
        # goes through the one-step trs2llh, whose own accuracy (C05: 1e-6 m near, 2 mm far) bounds the angles
        lat, lon, h0 = llh_rows[i]
        if ref_sys == "llh" and not six:
            lat_tol = lon_tol = 0.0
        else:
            pos_tol = (1e-6 if abs(h0) <= 1e5 else 2e-3) + 4 * math.ulp(E.a + abs(h0))
            lat_tol = pos_tol / (E.b + h0)
            lon_tol = pos_tol / max((E.a + h0) * abs(math.cos(lat)), 1e-30)
        triad_oracle(ctx, e2t[i], lat, lon, {**case, "i": i}, "Position.enu2trs", lat_tol, lon_tol)
        # Up is the ellipsoid normal at the reference position: moving along Up changes only the height, by the distance moved
        up = e2t[i][:, 2]
        for step in (1000.0, -500.0):
            if abs(abs(lat) - PI / 2) < 1e-7 or h0 + step < -2e5:
                continue
            moved = np.array(trs_rows[i]) + step * up
            lat2, lon2, h2 = llh_of(T, moved, E)
            R = E.a + abs(h0)
            dlon = abs((lon2 - lon + PI) % (2 * PI) - PI)
            ptol = (1e-6 if abs(h0) + abs(step) <= 1e5 else 2e-3) * 2 + 1e-6
            if abs(h2 - (h0 + step)) > ptol or abs(lat2 - lat) * R > 10 * ptol or dlon * R * math.cos(lat) > 10 * ptol:
                gviolate(ctx, "up=ellipsoid-normal", f"moving {step} m along Up on {ell} changes (lat, lon, h) from {(lat, lon, h0)} to {(lat2, lon2, h2)}", {**case, "i": i})
        # … and parallel to the gradient of x²/a² + y²/a² + z²/b² at the foot point
        foot = np.asarray(T.llh2trs(np.array([lat, lon, 0.0]), E), dtype=float).reshape(-1, 3)[0]
        grad = np.array([foot[0] / E.a**2, foot[1] / E.a**2, foot[2] / E.b**2])
        grad = grad / np.linalg.norm(grad)
        if float(np.max(np.abs(grad - up))) > 1e-14 + lat_tol + lon_tol * abs(math.cos(lat)):
            gviolate(ctx, "up=gradient-of-ellipsoid", f"Up {up.tolist()} is not the unit gradient {grad.tolist()} of the {ell} quadric at the foot point", {**case, "i": i})
        # enu_east/north/up properties
        try:
            ee = np.asarray(frame_owner.enu_east, dtype=float).reshape(-1, 3)[i]
            en = np.asarray(frame_owner.enu_north, dtype=float).reshape(-1, 3)[i]
            eu = np.asarray(frame_owner.enu_up, dtype=float).reshape(-1, 3)[i]
            if not (np.array_equal(ee, e2t[i][:, 0]) and np.array_equal(en, e2t[i][:, 1]) and np.array_equal(eu, e2t[i][:, 2])):
                gviolate(ctx, "enu_east/north/up=columns", "enu_east/enu_north/enu_up are not the columns of enu2trs", {**case, "i": i})
        except Exception as e:
            gviolate(ctx, f"raises:enu_east:{type(e).__name__}", f"enu_east/north/up raised {e}", {**case, "i": i})
    # angle preservation between the deltas of one array
    if m >= 2 and not six:
        for i in range(m - 1):
            a, b = np.array(dvecs[i]), np.array(dvecs[i + 1])
            lhs = float(np.dot(a, b))
            # same frame needed: convert both at reference i
            pair = PositionDelta(np.array([dvecs[i], dvecs[i + 1]]), "trs",
                                 ref_pos=Position(np.array([ref_rows[i], ref_rows[i]]), ref_sys, ellipsoid=E))
            pe = np.asarray(pair.enu, dtype=float)
            rhs = float(np.dot(pe[0], pe[1]))
            if abs(lhs - rhs) > REL * (np.linalg.norm(a) * np.linalg.norm(b)) + 1e-300:
                gviolate(ctx, "angle-preserved:trs->enu", f"dot product {lhs!r} becomes {rhs!r} in ENU", {**case, "i": i})
    # identical numbers for (k,), (1,k) and row i of (n,k)
    shape_consistency(ctx, case, six, ref_sys if not six else "trs", ref_rows, dvecs, dvels, E, enu)


def llh_of(T, xyz, E):
    """trs2llh of one point (the lru_cache of _trs2llh may hand back a (1, 3) result for a (3,) input: property C08)"""
    return np.asarray(T.trs2llh(np.array(xyz, dtype=float), E), dtype=float).reshape(-1, 3)[0].tolist()


def shape_consistency(ctx, case, six, ref_sys, ref_rows, dvecs, dvels, E, enu):
    """rows are independent: a row converted on its own — as (k,) and as (1,k), with its own reference position — gives the
    numbers of that row of the array (first and last row; to rounding, far below the property's 1e-9)"""
    Position, PositionDelta, PosVel, PosVelDelta, *_ = _imp()
    for i in sorted({0, len(dvecs) - 1}):
        for shape in ("1d", "1xk"):
            if six:
                ref = PosVel(as_shape([list(ref_rows[i]) + [10.0, -20.0, 30.0]], shape), ref_sys, ellipsoid=E)
                d = PosVelDelta(as_shape([list(dvecs[i]) + list(dvels[i])], shape), "trs", ref_pos=ref)
            else:
                ref = Position(as_shape([ref_rows[i]], shape), ref_sys, ellipsoid=E)
                d = PositionDelta(as_shape([dvecs[i]], shape), "trs", ref_pos=ref)
            got = np.asarray(d.enu, dtype=float).ravel()
            scale = float(np.linalg.norm(dvecs[i])) + (float(np.linalg.norm(dvels[i])) if six else 0.0)
            if got.shape != enu[i].shape or float(np.max(np.abs(got - enu[i]))) > 8 * 2.3e-16 * scale:
                gviolate(ctx, f"shape-consistency:delta.enu:{shape}", f"delta.enu of row {i} given on its own as {shape} is {got.tolist()} but {enu[i].tolist()} as row of the array", {**case, "as": shape, "i": i})
            # the other direction: the ENU components of the row back to TRS, on its own
            cls = PosVelDelta if six else PositionDelta
            back1 = np.asarray(cls(as_shape([enu[i].tolist()], shape), "enu", ref_pos=ref).trs, dtype=float).ravel()
            want = np.array(list(dvecs[i]) + (list(dvels[i]) if six else []))
            if back1.shape != want.shape or any(float(np.max(np.abs(back1[q:q + 3] - want[q:q + 3]))) > REL * float(np.linalg.norm(want[q:q + 3])) for q in range(0, len(want), 3)):
                gviolate(ctx, f"shape-consistency:enu-delta.trs:{shape}", f"the ENU components of row {i} converted to TRS on their own ({shape}) give {back1.tolist()}, the vector was {want.tolist()}", {**case, "as": shape, "i": i})


# --------------------------------------------------------------------------------------------------
# short histories on one object: read a conversion, replace the reference position / the ellipsoid, read again


def check_histories(ctx: Ctx):
    Position, PositionDelta, PosVel, PosVelDelta, ellipsoid, rotation, T = _imp()
    rng = ctx.rng
    names = list(ellipsoid._ELLIPSOIDS)
    n = ctx.budget(120, 6000)
    for _ in range(n):
        ell = rng.choice(names)
        kind = rng.choice(["trs->enu", "enu->trs", "trs->acr", "acr->trs", "posvel trs->enu", "ellipsoid",
                           "other: position observer", "other: posvel observer"])
        m = rng.choice([1, 1, 2, 3])
        shape = rng.choice(["1d", "1xk"]) if m == 1 else "nxk"
        llhA = [gen_ref_llh(rng) for _ in range(m)]
        llhB = [gen_ref_llh(rng) for _ in range(m)]
        statesA = [gen_state(rng) for _ in range(m)]
        statesB = [gen_state(rng) for _ in range(m)]
        d = [gen_vec(rng, -3, 6) for _ in range(m)]
        w = [gen_vec(rng, -3, 3) for _ in range(m)]
        sysB = rng.choice(["trs", "llh"])
        ell2 = rng.choice([x for x in names if x != ell])
        read_first = rng.random() < 0.85
        case = {"fn": "history: read, replace, read", "kind": kind, "ellipsoid": ell, "ellipsoid2": ell2, "shape": shape, "refA_llh": llhA,
                "refB_llh": llhB, "refB_system": sysB, "statesA": statesA, "statesB": statesB, "delta": d, "dvel": w,
                "read_before_replacing": read_first}
        ctx.case(case, nontrivial=True)
        ctx.count(f"history:{kind}")
        try:
            one_history(ctx, case)
        except Exception as e:
            gviolate(ctx, f"raises:history:{kind}:{type(e).__name__}", f"history {kind} raised {type(e).__name__}: {e}", case)


def one_history(ctx, c):
    Position, PositionDelta, PosVel, PosVelDelta, ellipsoid, rotation, T = _imp()
    drv = ctx.driver
    kind, shape = c["kind"], c["shape"]
    E, E2 = ellipsoid.get(c["ellipsoid"]), ellipsoid.get(c["ellipsoid2"])
    m = len(c["delta"])

    def to_trs(rows, ell_):
        return [np.asarray(T.llh2trs(np.array(r, dtype=float), ell_), dtype=float).reshape(-1, 3)[0].tolist() for r in rows]

    def pos(rows_llh, system, ell_):
        return Position(as_shape(rows_llh if system == "llh" else to_trs(rows_llh, ell_), shape), system, ellipsoid=ell_)

    def pv(states):
        return PosVel(as_shape([list(r) + list(v) for r, v in states], shape), "trs")

    def scale(rows):
        return max(float(np.linalg.norm(np.array(rows, dtype=float), axis=1).max()), 1e-300)

    if kind in ("trs->enu", "enu->trs"):
        src, dst = kind.split("->")
        delta = PositionDelta(as_shape(c["delta"], shape), src, ref_pos=pos(c["refA_llh"], "trs", E))
        if c["read_before_replacing"]:
            getattr(delta, dst)
        B = pos(c["refB_llh"], c["refB_system"], E)
        delta.ref_pos = B
        got = rows_of(np.asarray(getattr(delta, dst), dtype=float))
        fresh = rows_of(np.asarray(getattr(PositionDelta(as_shape(c["delta"], shape), src, ref_pos=pos(c["refB_llh"], c["refB_system"], E)), dst), dtype=float))
        tol = REL * scale(c["delta"])
        if got.shape != fresh.shape or float(np.max(np.abs(got - fresh))) > tol:
            gviolate(ctx, f"stale-after-ref_pos-replaced:{dst}", f"delta.{dst} after `delta.ref_pos = B` is {got.tolist()} but a delta built on B gives {fresh.tolist()}", c)
        # the frame is the one of the reference position it has *now*: projections on the triad at B (known geodetic coordinates)
        for i in range(m):
            lat, lon, h = c["refB_llh"][i]
            e2t = np.array([[-math.sin(lon), -math.cos(lon) * math.sin(lat), math.cos(lon) * math.cos(lat)],
                            [math.cos(lon), -math.sin(lon) * math.sin(lat), math.sin(lon) * math.cos(lat)],
                            [0.0, math.cos(lat), math.sin(lat)]])
            dv = np.array(c["delta"][i])
            want = e2t.T @ dv if dst == "enu" else e2t @ dv
            atol = (2e-3 / E.b * 2 + 1e-12) * float(np.linalg.norm(dv)) + 1e-300
            if float(np.max(np.abs(got[i] - want))) > atol:
                gviolate(ctx, f"frame-of-current-ref_pos:{dst}", f"delta.{dst} after `delta.ref_pos = B` is {got[i].tolist()} but in the East/North/Up triad at B it is {want.tolist()}", {**c, "i": i})
            cs = (float(np.cos(lat)), float(np.sin(lat)), float(np.cos(lon)), float(np.sin(lon)))
            if c["refB_system"] == "llh":
                mod = floats(drv.ask1(f"c06 f {'dtrs2enuCS' if dst == 'enu' else 'denu2trsCS'} {fline(*cs)} {fline(*dv)}"))
                if worst(got[i], mod) > 8 * 2.3e-16 * float(np.linalg.norm(dv)) + 1e-300:
                    gdisagree(ctx, f"history: delta.{dst} after ref_pos replaced (Float model of the frame at the new reference)", {**c, "i": i}, mod, got[i].tolist())
    elif kind in ("trs->acr", "acr->trs", "posvel trs->enu"):
        src, dst = ("trs", "enu") if kind == "posvel trs->enu" else kind.split("->")
        vals = [list(a) + list(b) for a, b in zip(c["delta"], c["dvel"])]
        delta = PosVelDelta(as_shape(vals, shape), src, ref_pos=pv(c["statesA"]))
        if c["read_before_replacing"]:
            getattr(delta, dst)
        delta.ref_pos = pv(c["statesB"])
        got = rows_of(np.asarray(getattr(delta, dst), dtype=float))
        fresh = rows_of(np.asarray(getattr(PosVelDelta(as_shape(vals, shape), src, ref_pos=pv(c["statesB"])), dst), dtype=float))
        tol = 1e-7 * scale(vals)
        if got.shape != fresh.shape or float(np.max(np.abs(got - fresh))) > tol:
            gviolate(ctx, f"stale-after-ref_pos-replaced:{dst}", f"posvel delta.{dst} after `delta.ref_pos = B` is {got.tolist()} but a delta built on B gives {fresh.tolist()}", c)
        if dst == "acr":
            for i in range(m):
                r, v = np.array(c["statesB"][i][0]), np.array(c["statesB"][i][1])
                rhat = r / np.linalg.norm(r)
                chat = np.cross(r, v)
                chat /= np.linalg.norm(chat)
                ahat = np.cross(chat, rhat)
                sin_rv = float(np.linalg.norm(np.cross(rhat, v / np.linalg.norm(v))))
                dv = np.array(c["delta"][i])
                want = np.array([np.dot(dv, ahat), np.dot(dv, chat), np.dot(dv, rhat)])
                if float(np.max(np.abs(got[i][:3] - want))) > (1e-9 + 1e-13 / max(sin_rv, 1e-12)) * float(np.linalg.norm(dv)) + 1e-300:
                    gviolate(ctx, "frame-of-current-ref_pos:acr", f"delta.acr after `delta.ref_pos = B` is {got[i][:3].tolist()} but along/cross/radial at B give {want.tolist()}", {**c, "i": i})
    elif kind.startswith("other:"):
        # the target (`other`) of an observer is replaced after azimuth / elevation / zenith distance / distance were read:
        # what is reported afterwards are the angles of the vector to the target it has *now*, in the triad at the observer
        posvel = "posvel" in kind
        obs_trs = to_trs(c["refA_llh"], E)

        def observer(target):
            if posvel:
                rows = [list(x) + list(v) for x, (_, v) in zip(obs_trs, c["statesA"])]
                return PosVel(as_shape(rows, shape), "trs", ellipsoid=E, other=target)
            return Position(as_shape(obs_trs, shape), "trs", ellipsoid=E, other=target)

        def target(rows_llh):
            # targets a few hundred km .. 26 000 km away: the observer's position plus the orbit-like vectors of the case
            rows = [(np.array(o) + np.array(s_[0]) * 0.5).tolist() for o, s_ in zip(obs_trs, rows_llh)]
            return Position(as_shape(rows, shape), "trs", ellipsoid=E), rows

        t1, _ = target(c["statesA"])
        t2, t2rows = target(c["statesB"])
        O = observer(t1)
        names = ["azimuth", "elevation", "zenith_distance", "distance"]
        if c["read_before_replacing"]:
            for nme in names:
                getattr(O, nme)
        O.other = t2
        fresh_O = observer(target(c["statesB"])[0])
        for nme in names:
            got = np.atleast_1d(np.asarray(getattr(O, nme), dtype=float))
            fresh = np.atleast_1d(np.asarray(getattr(fresh_O, nme), dtype=float))
            sc = 1.0 if nme != "distance" else float(np.max(np.abs(fresh))) + 1.0
            if got.shape != fresh.shape or float(np.max(np.abs(got - fresh))) > 1e-12 * sc:
                gviolate(ctx, f"stale-after-other-replaced:{'posvel' if posvel else 'position'}:{nme}",
                         f"{nme} after `observer.other = B` is {got.tolist()} but an observer built with B as its target reports {fresh.tolist()}", c)
        az = np.atleast_1d(np.asarray(O.azimuth, dtype=float))
        el = np.atleast_1d(np.asarray(O.elevation, dtype=float))
        for i in range(m):
            lat, lon, h = c["refA_llh"][i]
            east = np.array([-math.sin(lon), math.cos(lon), 0.0])
            north = np.array([-math.cos(lon) * math.sin(lat), -math.sin(lon) * math.sin(lat), math.cos(lat)])
            up = np.array([math.cos(lon) * math.cos(lat), math.sin(lon) * math.cos(lat), math.sin(lat)])
            dv = np.array(t2rows[i]) - np.array(obs_trs[i])
            u = dv / np.linalg.norm(dv)
            want_az, want_el = math.atan2(float(u @ east), float(u @ north)), math.asin(max(-1.0, min(1.0, float(u @ up))))
            # the observer's own geodetic coordinates are recomputed by the code from trs (one-step scheme: < 1e-9 rad here)
            cosel = max(math.cos(want_el), 1e-6)
            daz = abs((az[i] - want_az + math.pi) % (2 * math.pi) - math.pi)
            if daz > 1e-8 / cosel or abs(el[i] - want_el) > 1e-8:
                gviolate(ctx, f"angles-of-current-other:{'posvel' if posvel else 'position'}",
                         f"after `observer.other = B`: azimuth/elevation {az[i]!r}/{el[i]!r}, but the vector to B has {want_az!r}/{want_el!r} in the East/North/Up triad at the observer", {**c, "i": i})
    else:  # the ellipsoid of a reference position is replaced after its frame was read
        P = pos(c["refA_llh"], "trs", E)
        xyz = np.asarray(P, dtype=float).copy()
        if c["read_before_replacing"]:
            P.trs2enu, P.llh
        P.ellipsoid = E2
        got = np.asarray(P.trs2enu, dtype=float).reshape(-1, 3, 3)
        got_llh = rows_of(np.asarray(P.llh, dtype=float))
        Q = Position(xyz.copy(), "trs", ellipsoid=E2)
        fresh = np.asarray(Q.trs2enu, dtype=float).reshape(-1, 3, 3)
        fresh_llh = rows_of(np.asarray(Q.llh, dtype=float))
        if float(np.max(np.abs(got - fresh))) > 1e-13 or float(np.max(np.abs(got_llh - fresh_llh) / np.array([1, 1, 1e7]))) > 1e-13:
            gviolate(ctx, "stale-after-ellipsoid-replaced", f"after `pos.ellipsoid = {c['ellipsoid2']}` trs2enu/llh are still those of {c['ellipsoid']}: llh {got_llh.tolist()} vs {fresh_llh.tolist()}", c)


# --------------------------------------------------------------------------------------------------
# rows / slices / masks of an array: the frame of row i is the frame of `array[...]` at that row, on every ellipsoid


def gen_index(rng, m):
    """an index expression for an array of m rows and the row numbers it selects"""
    kind = rng.choice(["int", "negint", "np.int", "slice", "stepslice", "list", "intarray", "mask"])
    if kind == "int":
        i = rng.randrange(m)
        return kind, i, [i], i
    if kind == "negint":
        i = rng.randrange(m)
        return kind, i - m, [i], i - m
    if kind == "np.int":
        i = rng.randrange(m)
        return kind, np.int_(i), [i], i
    if kind == "slice":
        a = rng.randrange(m)
        b = rng.randint(a + 1, m)
        return kind, slice(a, b), list(range(a, b)), [a, b]
    if kind == "stepslice":
        st = rng.choice([2, -1, -2])
        return kind, slice(None, None, st), list(range(m))[::st], [None, None, st]
    if kind == "list":
        sel = [rng.randrange(m) for _ in range(rng.randint(1, m))]
        return kind, list(sel), sel, sel
    if kind == "intarray":
        sel = [rng.randrange(m) for _ in range(rng.randint(1, m))]
        return kind, np.array(sel), sel, sel
    mask = [rng.random() < 0.5 for _ in range(m)]
    if not any(mask):
        mask[rng.randrange(m)] = True
    return kind, np.array(mask), [i for i, b in enumerate(mask) if b], mask


def index_from_json(kind, js):
    if kind in ("int", "negint"):
        return int(js)
    if kind == "np.int":
        return np.int_(js)
    if kind == "slice":
        return slice(js[0], js[1])
    if kind == "stepslice":
        return slice(js[0], js[1], js[2])
    if kind == "list":
        return list(js)
    if kind == "intarray":
        return np.array(js, dtype=int)
    return np.array(js, dtype=bool)


def check_indexed_frames(ctx: Ctx):
    Position, PositionDelta, PosVel, PosVelDelta, ellipsoid, rotation, T = _imp()
    rng = ctx.rng
    names = list(ellipsoid._ELLIPSOIDS)
    n = ctx.budget(300, 5000)
    for _ in range(n):
        ell = rng.choice(names)
        E = ellipsoid.get(ell)
        m = rng.choice([2, 3, 4, 6])
        kind, _, sel, js = gen_index(rng, m)
        llh_rows = [gen_ref_llh(rng) for _ in range(m)]
        trs_rows = [np.asarray(T.llh2trs(np.array(r), E), dtype=float).reshape(-1, 3)[0].tolist() for r in llh_rows]
        targets = [(np.array(p) + np.array(unit_dir(rng)) * rng.uniform(1e3, 3e7)).tolist() for p in trs_rows]
        case = {"fn": "rows of an array", "ellipsoid": ell, "index_kind": kind, "index": js, "rows": sel,
                "posvel": rng.random() < 0.35, "ref_sys": rng.choice(["trs", "llh"]), "delta_sys": rng.choice(["trs", "enu"]),
                "array_read_first": rng.random() < 0.5, "ref_llh": llh_rows, "ref_trs": trs_rows, "target_trs": targets,
                "vel": [gen_state(rng)[1] for _ in range(m)], "delta": [gen_vec(rng, -3, 7) for _ in range(m)],
                "dvel": [gen_vec(rng, -6, 3) for _ in range(m)]}
        ctx.case(case, nontrivial=True)
        ctx.count(f"index:{kind}")
        ctx.count(f"index:ell={ell}")
        ctx.count("index:posvel" if case["posvel"] else "index:position")
        try:
            one_indexed(ctx, case)
        except Exception as e:
            gviolate(ctx, f"raises:index:{kind}:{type(e).__name__}", f"frame of array[{kind}] raised {type(e).__name__}: {e}", case)


def one_indexed(ctx, c):
    Position, PositionDelta, PosVel, PosVelDelta, ellipsoid, rotation, T = _imp()
    drv = ctx.driver
    ell, kind, sel = c["ellipsoid"], c["index_kind"], list(c["rows"])
    E = ellipsoid.get(ell)
    idx = index_from_json(kind, c["index"])
    m = len(c["ref_llh"])
    six = c["posvel"]
    one_row = kind in ("int", "negint", "np.int")

    def build():
        other = Position(np.array(c["target_trs"]), "trs", ellipsoid=E)
        if six:
            pos = PosVel(np.array([list(p) + list(v) for p, v in zip(c["ref_trs"], c["vel"])]), "trs", ellipsoid=E, other=other)
            delta = PosVelDelta(np.array([list(d) + list(w) for d, w in zip(c["delta"], c["dvel"])]), c["delta_sys"], ref_pos=pos)
        else:
            pos = Position(np.array(c["ref_llh"] if c["ref_sys"] == "llh" else c["ref_trs"]), c["ref_sys"], ellipsoid=E, other=other)
            delta = PositionDelta(np.array(c["delta"]), c["delta_sys"], ref_pos=pos)
        return pos, delta

    names = ["azimuth", "elevation", "zenith_distance"]
    dst = "enu" if c["delta_sys"] == "trs" else "trs"

    def read(pos, delta):
        out = {"e2t": np.asarray(pos.enu2trs, dtype=float).reshape(-1, 3, 3), "t2e": np.asarray(pos.trs2enu, dtype=float).reshape(-1, 3, 3),
               "llh": rows_of(np.asarray(pos.pos.llh.val, dtype=float)), "up": rows_of(np.asarray(pos.enu_up, dtype=float)),
               "east": rows_of(np.asarray(pos.enu_east, dtype=float)), "north": rows_of(np.asarray(pos.enu_north, dtype=float)),
               "conv": rows_of(np.asarray(getattr(delta, dst), dtype=float))}
        for nme in names:
            out[nme] = np.atleast_1d(np.asarray(getattr(pos, nme), dtype=float))
        if six:
            out["acr"] = rows_of(np.asarray(delta.acr if c["delta_sys"] == "trs" else delta.trs.acr, dtype=float))
        return out

    pos, delta = build()
    if c["array_read_first"]:
        whole = read(pos, delta)
    rows, drows = pos[idx], delta[idx]
    part = read(rows, drows)
    if not c["array_read_first"]:
        whole = read(pos, delta)
    k = len(sel)
    # shapes: an integer gives one position (k,), everything else (len, k)
    want_shape = (6 if six else 3,) if one_row else (k, 6 if six else 3)
    if np.asarray(rows).shape != want_shape or np.asarray(drows).shape != want_shape:
        gviolate(ctx, f"shape:index:{kind}", f"array[{kind}] has shape {np.asarray(rows).shape}, delta[{kind}] {np.asarray(drows).shape}; expected {want_shape}", c)
        return
    # the ellipsoid goes with the rows
    for what, obj in (("position", rows), ("ref_pos of the delta", drows.ref_pos)):
        e_ = getattr(obj, "ellipsoid", None)
        if e_ is None or e_.a != E.a or e_.f != E.f:
            gviolate(ctx, "index:ellipsoid-of-rows", f"rows taken with [{kind}] from a {what} on {ell} are on {getattr(e_, 'name', e_)!r}", c)
    # the frame / angles / converted components of the rows are those of the same rows of the array
    for j, i in enumerate(sel):
        cj = {**c, "i": i, "j": j}
        for nme in ("e2t", "t2e", "up", "east", "north"):
            if part[nme].shape[0] != k or float(np.max(np.abs(part[nme][j] - whole[nme][i]))) > 1e-14:
                gviolate(ctx, "index:frame-of-row", f"{nme} of array[{kind}] at row {i} is {part[nme][j].tolist() if part[nme].shape[0] == k else part[nme].shape} but row {i} of the array has {whole[nme][i].tolist()} ({ell})", cj)
                break
        if part["llh"].shape[0] == k:
            dl = np.abs(part["llh"][j] - whole["llh"][i])
            # the same elementwise arithmetic on fewer rows: NumPy's vector and scalar loops may differ in the last place
            if dl[0] > 2e-15 or min(dl[1], abs(dl[1] - 2 * PI)) > 2e-15 or dl[2] > 1e-8 + 8 * math.ulp(E.a + abs(whole["llh"][i][2])):
                gviolate(ctx, "index:llh-of-row", f"llh of array[{kind}] at row {i} is {part['llh'][j].tolist()} but row {i} of array.llh is {whole['llh'][i].tolist()} ({ell})", cj)
        cosel = max(math.cos(whole["elevation"][i]), 1e-7)
        for nme in names:
            if part[nme].shape != (k,):
                gviolate(ctx, f"shape:index:{nme}", f"{nme} of array[{kind}] has shape {part[nme].shape} for {k} rows", cj)
                continue
            dd = abs(part[nme][j] - whole[nme][i])
            if nme == "azimuth":
                dd = min(dd, abs(dd - 2 * PI))
            if dd > 1e-13 / cosel**2:
                gviolate(ctx, f"index:{nme}-of-row", f"{nme} of array[{kind}] at row {i} is {float(part[nme][j])!r} but row {i} of array.{nme} is {float(whole[nme][i])!r} ({ell})", cj)
        for nme, label in (("conv", f"delta[{kind}].{dst}"),) + ((("acr", f"delta[{kind}].acr"),) if six else ()):
            if part[nme].shape != (k, 6 if six else 3):
                gviolate(ctx, f"shape:index:delta.{dst}", f"{label} has shape {part[nme].shape}", cj)
                continue
            for q in range(0, 6 if six else 3, 3):
                src = np.array((c["delta"] if q == 0 else c["dvel"])[i])
                nd = float(np.linalg.norm(src))
                ctol = 16 * 2.3e-16 * nd
                if nme == "acr":
                    r_, v_ = np.array(c["ref_trs"][i]), np.array(c["vel"][i])
                    ctol /= max(float(np.linalg.norm(np.cross(r_ / np.linalg.norm(r_), v_ / np.linalg.norm(v_)))), 1e-12)
                if float(np.max(np.abs(part[nme][j][q:q + 3] - whole[nme][i][q:q + 3]))) > ctol:
                    gviolate(ctx, f"index:delta.{dst if nme == 'conv' else 'acr'}-of-row", f"{label} at row {i} is {part[nme][j][q:q + 3].tolist()} but row {i} of the converted array is {whole[nme][i][q:q + 3].tolist()} ({ell})", {**cj, "part": q // 3})
        # ground truth: the triad of the row is the geodetic one of its own ellipsoid
        lat, lon, h0 = c["ref_llh"][i]
        if c["ref_sys"] == "llh" and not six:
            lat_tol = lon_tol = 0.0
        else:
            pos_tol = (1e-6 if abs(h0) <= 1e5 else 2e-3) + 4 * math.ulp(E.a + abs(h0))
            lat_tol = pos_tol / (E.b + h0)
            lon_tol = pos_tol / max((E.a + h0) * abs(math.cos(lat)), 1e-30)
        if part["e2t"].shape[0] == k:
            triad_oracle(ctx, part["e2t"][j], lat, lon, cj, f"array[{kind}].enu2trs on {ell}", lat_tol, lon_tol)
    # ---- correspondence: the frame of the rows through the model's trs2llh on the array's ellipsoid, per row
    if part["t2e"].shape[0] == k:
        if c["ref_sys"] == "trs" or six:
            ans = drv.ask([f"c06 f frame {ell} {fline(*c['ref_trs'][i])}" for i in sel])
        else:
            ans = drv.ask([f"c06 f trs2enu {fline(c['ref_llh'][i][0], c['ref_llh'][i][1])}" for i in sel])
        for j, i in enumerate(sel):
            mod = floats(ans[j])
            if not allclose(part["t2e"][j].ravel(), mod, ulp=4, abs_=1e-15):
                gdisagree(ctx, "array[index].trs2enu (per-row frame on the array's ellipsoid, Float model)", {**c, "i": i, "j": j}, mod, part["t2e"][j].ravel().tolist())
        # ... and the converted components: the model's `takeRows` of the whole arrays (reference frames of the *array*:
        # the geodetic coordinates the array-level object reports), converted row by row
        k6 = 6 if six else 3
        cmd = ("d6" if six else "") + ("trs2enu" if dst == "enu" else "enu2trs")
        data = " ".join(fline(whole["llh"][i][0], whole["llh"][i][1], *c["delta"][i], *(c["dvel"][i] if six else [])) for i in range(m))
        got_rows = floats(drv.ask1(f"c06 f rows {cmd} {k} {' '.join(str(i) for i in sel)} {data}"))
        ctx.count("model:takeRows+rows")
        if len(got_rows) != k * k6:
            gdisagree(ctx, "array-level model: takeRows selects the rows of the index", c, got_rows, sel)
            return
        for j, i in enumerate(sel):
            mod = got_rows[k6 * j: k6 * j + k6]
            if part["conv"].shape != (k, 6 if six else 3):
                break
            for q in range(0, 6 if six else 3, 3):
                nd = float(np.linalg.norm((c["delta"] if q == 0 else c["dvel"])[i]))
                if worst(part["conv"][j][q:q + 3], mod[q:q + 3]) > 4 * nd * 2.3e-16 + 1e-300:
                    gdisagree(ctx, f"delta[index].{dst} (Float model on the frame of the row)", {**c, "i": i, "j": j, "part": q // 3}, mod[q:q + 3], part["conv"][j][q:q + 3].tolist())



# --------------------------------------------------------------------------------------------------
# broadcasting: the shapes the code really accepts — every combination is either agreed with the model or refused by both


def _arr(rows, shape):
    """rows as (k,), (1,k) or (n,k)"""
    a = np.array(rows, dtype=float)
    return a[0].copy() if shape == "1d" else a


def _code(fn, shapes=None, note=None):
    """the result as rows, or 'refused' when NumPy does not accept the shapes; `note(raw shape)` is told the shape"""
    try:
        r = np.asarray(fn(), dtype=float)
    except ValueError:
        return "refused"
    if note is not None:
        note(r.shape)
    return rows_of(r)


def _rows_kept(ctx, case, got_shape, na, sha, nb, shb):
    """result rows = input rows: 2-d values (also of one row) give a 2-d result of max(rows) rows, a single vector with a
    single reference position gives a single vector"""
    k = got_shape[-1] if got_shape else 0
    if shb == "nxk":
        want = (max(na, nb), k)
    elif sha == "1d":
        want = (k,)
    else:
        return  # one vector against an array of reference positions: the vector in every frame, not asserted here
    if tuple(got_shape) != want:
        gviolate(ctx, f"shape:broadcast:{case['what']}", f"values of shape {(nb, k) if shb == 'nxk' else (k,)} with reference positions of shape {(na, 3) if sha == 'nxk' else '(k,)'} give a result of shape {tuple(got_shape)}, expected {want}", case)


def check_broadcast(ctx: Ctx):
    Position, PositionDelta, PosVel, PosVelDelta, ellipsoid, rotation, T = _imp()
    drv, rng = ctx.driver, ctx.rng
    names = list(ellipsoid._ELLIPSOIDS)
    n = ctx.budget(150, 4000)
    for _ in range(n):
        what = rng.choice(["enu", "enu", "acr", "azel", "angles", "vectors"])
        ell = rng.choice(names)
        E = ellipsoid.get(ell)

        def pick():
            k = rng.choice(["1d", "1xk", "n", "n", "other"])
            return {"1d": (1, "1d"), "1xk": (1, "nxk"), "n": (3, "nxk"), "other": (rng.choice([2, 4]), "nxk")}[k] + (k,)

        (na, sha, ka), (nb, shb, kb) = pick(), pick()
        llh_rows = [gen_ref_llh(rng) for _ in range(na)]
        trs_rows = [np.asarray(T.llh2trs(np.array(r), E), dtype=float).reshape(-1, 3)[0].tolist() for r in llh_rows]
        case = {"fn": "broadcasting", "what": what, "ellipsoid": ell, "first": [na, sha], "second": [nb, shb], "ref_llh": llh_rows, "ref_trs": trs_rows}
        ctx.count(f"broadcast:{what}")
        try:
            if what == "enu":
                direction = rng.choice(["trs2enu", "enu2trs"])
                six = rng.random() < 0.3
                vecs = [gen_vec(rng, -3, 7) + (gen_vec(rng, -6, 3) if six else []) for _ in range(nb)]
                case.update({"direction": direction, "posvel": six, "values": vecs})
                ctx.case(case, nontrivial=True)
                src, dst = direction.split("2")
                if six:
                    ref = PosVel(_arr([p + [10.0, -20.0, 30.0] for p in trs_rows], sha), "trs", ellipsoid=E)
                    impl = _code(lambda: getattr(PosVelDelta(_arr(vecs, shb), src, ref_pos=ref), dst), note=lambda sh: _rows_kept(ctx, case, sh, na, sha, nb, shb))
                else:
                    ref = Position(_arr(trs_rows, sha), "trs", ellipsoid=E)
                    impl = _code(lambda: getattr(PositionDelta(_arr(vecs, shb), src, ref_pos=ref), dst), note=lambda sh: _rows_kept(ctx, case, sh, na, sha, nb, shb))
                frames = rows_of(np.asarray(ref.pos.llh.val, dtype=float))
                if six and direction == "enu2trs":
                    # the model's 6-vector command exists for trs -> enu; the other direction through the 3-vector halves
                    mod = []
                    for half in (slice(0, 3), slice(3, 6)):
                        a = drv.ask1(f"c06 f rowsb enu2trs {na} {nb} " + " ".join(fline(*f[:2]) for f in frames) + " " + " ".join(fline(*v[half]) for v in vecs))
                        mod.append(a)
                    model = "refused" if "refused" in mod else np.hstack([np.array(floats(a)).reshape(-1, 3) for a in mod])
                else:
                    a = drv.ask1(f"c06 f rowsb {'d6' if six else ''}{direction} {na} {nb} " + " ".join(fline(*f[:2]) for f in frames) + " " + " ".join(fline(*v) for v in vecs))
                    model = "refused" if a == "refused" else np.array(floats(a)).reshape(-1, 6 if six else 3)
                scale = [max(float(np.linalg.norm(v[:3])), float(np.linalg.norm(v[3:])) if six else 0.0) for v in vecs]
                _compare_broadcast(ctx, case, impl, model, na, nb, lambda i: 8 * 2.3e-16 * scale[i if nb > 1 else 0] + 1e-300)
                # oracle: a single reference position is the frame of every row
                if not isinstance(impl, str) and na == 1 and not six:
                    for i in range(nb):
                        one = rows_of(np.asarray(getattr(PositionDelta(np.array(vecs[i]), src, ref_pos=Position(np.array(trs_rows[0]), "trs", ellipsoid=E)), dst), dtype=float))[0]
                        if float(np.max(np.abs(one - impl[i]))) > 8 * 2.3e-16 * scale[i] + 1e-300:
                            gviolate(ctx, f"broadcast:single-ref_pos:{dst}", f"row {i} converted with the one reference position given as {sha} is {impl[i].tolist()}, on its own {one.tolist()}", {**case, "i": i})
            elif what == "acr":
                direction = rng.choice(["trs2acr", "acr2trs"])
                states = [gen_state(rng) for _ in range(na)]
                vecs = [gen_vec(rng, -3, 7) + gen_vec(rng, -6, 3) for _ in range(nb)]
                case.update({"direction": direction, "states": states, "values": vecs})
                ctx.case(case, nontrivial=True)
                src, dst = direction.split("2")
                ref = PosVel(_arr([list(r) + list(v) for r, v in states], sha), "trs")
                impl = _code(lambda: getattr(PosVelDelta(_arr(vecs, shb), src, ref_pos=ref), dst), note=lambda sh: _rows_kept(ctx, case, sh, na, sha, nb, shb))
                a = drv.ask1(f"c06 f rowsb {direction} {na} {nb} " + " ".join(fline(*r, *v) for r, v in states) + " " + " ".join(fline(*v) for v in vecs))
                model = "refused" if a == "refused" else np.array(floats(a)).reshape(-1, 6)
                sins = [max(float(np.linalg.norm(np.cross(np.array(r) / np.linalg.norm(r), np.array(v) / np.linalg.norm(v)))), 1e-12) for r, v in states]
                _compare_broadcast(ctx, case, impl, model, na, nb,
                                   lambda i: (8 * 2.3e-16 / sins[i if na > 1 else 0] + 1e-15) * 4 * float(np.linalg.norm(vecs[i if nb > 1 else 0])) + 1e-300)
            elif what == "azel":
                targets = [(np.array(trs_rows[0]) + np.array(unit_dir(rng)) * rng.uniform(1e5, 3e7)).tolist() for _ in range(nb)]
                case.update({"target_trs": targets})
                ctx.case(case, nontrivial=True)
                obs = Position(_arr(trs_rows, sha), "trs", ellipsoid=E, other=Position(_arr(targets, shb), "trs", ellipsoid=E))
                impl = _code(lambda: np.stack([np.atleast_1d(obs.azimuth), np.atleast_1d(obs.elevation), np.atleast_1d(obs.zenith_distance)], axis=-1))
                frames = rows_of(np.asarray(obs.llh.val, dtype=float))
                a = drv.ask1(f"c06 f rowsazelb {na} {nb} " + " ".join(fline(f[0], f[1], *p) for f, p in zip(frames, trs_rows)) + " " + " ".join(fline(*t) for t in targets))
                model = "refused" if a == "refused" else np.array(floats(a)).reshape(-1, 3)
                _compare_broadcast(ctx, case, impl, model, na, nb, lambda i: 1e-9)
            elif what == "angles":
                which = rng.choice(["enu2trs", "trs2enu"])
                kinds = {"1d": "s", "1xk": "a", "n": "a", "other": "a"}
                lat = [gen_lat(rng) for _ in range(na)]
                lon = [gen_lon(rng) for _ in range(nb)]
                case.update({"which": which, "lat": lat, "lon": lon, "lat_is": kinds[ka], "lon_is": kinds[kb]})
                ctx.case(case, nontrivial=True)
                la = lat[0] if kinds[ka] == "s" else np.array(lat)
                lo = lon[0] if kinds[kb] == "s" else np.array(lon)
                try:
                    impl = np.asarray(getattr(rotation, which)(la, lo), dtype=float).reshape(-1, 9)
                except ValueError:
                    impl = "refused"
                a = drv.ask1(f"c06 f anglemats {which} {kinds[ka]} {na} {kinds[kb]} {fline(*lat)} {fline(*lon)}")
                model = "refused" if a == "refused" else np.array(floats(a)).reshape(-1, 9)
                ctx.count(f"broadcast:angles:{kinds[ka]}{na},{kinds[kb]}{nb}:" + ("refused" if isinstance(impl, str) else "accepted"))
                if isinstance(impl, str) != isinstance(model, str):
                    gdisagree(ctx, f"rotation.{which}: which (lat, lon) shapes are accepted", case, "refused" if isinstance(model, str) else "accepted", "refused" if isinstance(impl, str) else "accepted")
                elif not isinstance(impl, str) and (impl.shape != model.shape or float(np.max(np.abs(impl - model))) > 5e-16):
                    gdisagree(ctx, f"rotation.{which} on (lat, lon) arrays (Float model)", case, model.tolist(), impl.tolist())
            else:
                # vector / distance / direction: differences of the coordinates in the observer's own system (trs or llh)
                na = nb = 1
                t_llh = gen_ref_llh(rng)
                t_trs = np.asarray(T.llh2trs(np.array(t_llh), E), dtype=float).reshape(-1, 3)[0].tolist()
                osys = rng.choice(["trs", "llh"])
                case.update({"observer_system": osys, "target_llh": t_llh, "target_trs": t_trs, "ref_llh": llh_rows[:1], "ref_trs": trs_rows[:1]})
                ctx.case(case, nontrivial=True)
                ctx.count(f"vectors:observer={osys}")
                other = Position(np.array(t_trs), "trs", ellipsoid=E)
                obs = Position(np.array(llh_rows[0] if osys == "llh" else trs_rows[0]), osys, ellipsoid=E, other=other)
                vec, dist, dirn = np.asarray(obs.vector, dtype=float), float(obs.distance), np.asarray(obs.direction, dtype=float)
                o_llh = np.asarray(obs.llh.val, dtype=float).tolist()
                tl = np.asarray(other.llh.val, dtype=float).tolist()
                o_trs = np.asarray(obs.trs.val, dtype=float).tolist()
                ans = floats(drv.ask1(f"c06 f vecs {fline(*o_trs)} {fline(*t_trs)} {fline(*o_llh)} {fline(*tl)}"))
                mv, md, mdir = (ans[0:3], ans[3], ans[4:7]) if osys == "trs" else (ans[7:10], ans[10], ans[11:14])
                sc = max(abs(x) for x in mv) + 1e-300
                if worst(vec, mv) > 4 * 2.3e-16 * sc or abs(dist - md) > 8 * 2.3e-16 * abs(md) or worst(dirn, mdir) > 1e-15:
                    gdisagree(ctx, f"vector/distance/direction of an observer given in {osys} (Float model)", case, [mv, md, mdir], [vec.tolist(), dist, dirn.tolist()])
                if osys == "trs":
                    true = np.array(t_trs) - np.array(trs_rows[0])
                    if float(np.max(np.abs(vec - true))) > 0 or abs(dist - float(np.linalg.norm(true))) > 4 * math.ulp(dist):
                        gviolate(ctx, "vector=target-observer", f"vector {vec.tolist()} / distance {dist!r} of a TRS observer: target - observer is {true.tolist()}", case)
        except Exception as e:
            gviolate(ctx, f"raises:broadcast:{what}:{type(e).__name__}", f"broadcasting case raised {type(e).__name__}: {e}", case)


def _compare_broadcast(ctx, case, impl, model, na, nb, tol):
    accepted = na == nb or na == 1 or nb == 1
    lab = lambda n_, sh, other: "(k,)" if sh == "1d" else "(1,k)" if n_ == 1 else "(n,k)" if (other == 1 or other == n_) else "(m,k)"
    ctx.count(f"broadcast:{'accepted' if accepted else 'refused'}:{lab(na, case['first'][1], na)} with {lab(nb, case['second'][1], na)}")
    if isinstance(impl, str) != isinstance(model, str):
        gdisagree(ctx, f"broadcasting ({case['what']}): which shapes are accepted", case, "refused" if isinstance(model, str) else "accepted", "refused" if isinstance(impl, str) else "accepted")
        return
    if isinstance(impl, str):
        if accepted:
            gviolate(ctx, f"broadcast:refused:{case['what']}", f"{case['first']} against {case['second']} rows is refused", case)
        return
    if impl.shape != model.shape or impl.shape[0] != max(na, nb):
        gdisagree(ctx, f"broadcasting ({case['what']}): number of rows of the result", case, list(model.shape), list(impl.shape))
        return
    for i in range(impl.shape[0]):
        k = impl.shape[1]
        for q in range(0, k, 3):
            if case["what"] == "azel":
                d = np.abs(impl[i] - model[i])
                d[0] = min(d[0], abs(d[0] - 2 * PI))
                cosel = max(math.cos(model[i][1]), 1e-7)
                bad = float(np.max(d)) > 1e-12 / cosel**2
            else:
                bad = float(np.max(np.abs(impl[i][q:q + 3] - model[i][q:q + 3]))) > tol(i) * (1 if q == 0 else 1)
            if bad:
                gdisagree(ctx, f"broadcasting ({case['what']}): row {i} (Float model: replicated single row / paired rows)", {**case, "i": i}, model[i].tolist(), impl[i].tolist())
                return



# --------------------------------------------------------------------------------------------------
# user-built ellipsoids: the frame belongs to the *parameters* of the observer's ellipsoid, whatever its name and
# whatever was converted before (the trs <-> llh kernels are memoised per (coordinates, ellipsoid))

HISTORIC = [("Bessel 1841", 6377397.155, 299.1528128), ("International 1924", 6378388.0, 297.0), ("Clarke 1866", 6378206.4, 294.9786982),
            ("Krassovsky 1940", 6378245.0, 298.3), ("Airy 1830", 6377563.396, 299.3249646), ("GRS67", 6378160.0, 298.247167427),
            ("mean sphere", 6371000.0, math.inf), ("GRS80 parameters", 6378137.0, 298.257222101)]


def own_llh2trs(a, f_inv, lat, lon, h):
    f = 0.0 if math.isinf(f_inv) else 1.0 / f_inv
    e2 = f * (2 - f)
    N = a / math.sqrt(1 - e2 * math.sin(lat) ** 2)
    return [(N + h) * math.cos(lat) * math.cos(lon), (N + h) * math.cos(lat) * math.sin(lon), (N * (1 - e2) + h) * math.sin(lat)]


def own_trs2llh(a, f_inv, x, y, z):
    """fixed-point iteration to convergence (independent of midgard, nothing memoised)"""
    f = 0.0 if math.isinf(f_inv) else 1.0 / f_inv
    e2 = f * (2 - f)
    p = math.hypot(x, y)
    lat = math.atan2(z, p * (1 - e2))
    for _ in range(30):
        N = a / math.sqrt(1 - e2 * math.sin(lat) ** 2)
        lat = math.atan2(z + e2 * N * math.sin(lat), p)
    N = a / math.sqrt(1 - e2 * math.sin(lat) ** 2)
    h = p / math.cos(lat) - N if abs(math.cos(lat)) > 1e-3 else z / math.sin(lat) - N * (1 - e2)
    return lat, math.atan2(y, x), h


def check_user_ellipsoids(ctx: Ctx):
    Position, PositionDelta, PosVel, PosVelDelta, ellipsoid, rotation, T = _imp()
    rng = ctx.rng
    n = ctx.budget(120, 2000)
    for k in range(n):
        mode = rng.choice(["same name, other axes", "same name, other axes", "other name, same axes", "other name, other axes"])
        pa = rng.choice(HISTORIC)
        if mode == "other name, same axes":
            pb = pa
        elif rng.random() < 0.3:
            # the same ellipsoid "corrected": axis and flattening changed a little
            pb = (pa[0], pa[1] + rng.choice([-1, 1]) * 10.0 ** rng.uniform(-1, 2), pa[2] if math.isinf(pa[2]) else pa[2] + rng.uniform(-0.5, 0.5))
        else:
            pb = rng.choice([q for q in HISTORIC if q[1:] != pa[1:]])
        name_a = f"user ellipsoid {rng.randrange(3)}"
        name_b = name_a if mode.startswith("same name") else name_a + " (b)"
        m = rng.choice([1, 1, 2, 3])
        shape = rng.choice(["1d", "1xk"]) if m == 1 else "nxk"
        llh_a = [[gen_lat(rng), gen_lon(rng), rng.uniform(-1e4, 1e5)] for _ in range(m)]
        xyz = [own_llh2trs(pa[1], pa[2], *r) for r in llh_a]
        targets = [(np.array(p) + np.array(unit_dir(rng)) * rng.uniform(1e4, 3e7)).tolist() for p in xyz]
        case = {"fn": "user ellipsoids", "mode": mode, "first": [name_a, pa[1], pa[2]], "second": [name_b, pb[1], pb[2]], "shape": shape,
                "trs": xyz, "target_trs": targets, "delta": [gen_vec(rng, -3, 7) for _ in range(m)],
                "order": rng.choice(["first, second", "second, first", "first, second, first"]), "six": rng.random() < 0.3}
        ctx.case(case, nontrivial=True)
        ctx.count(f"user-ellipsoid:{mode}")
        ctx.count(f"user-ellipsoid:order={case['order']}")
        try:
            one_user_ellipsoids(ctx, case)
        except Exception as e:
            gviolate(ctx, f"raises:user-ellipsoid:{type(e).__name__}", f"frame on a user-built ellipsoid raised {type(e).__name__}: {e}", case)


def one_user_ellipsoids(ctx, c):
    Position, PositionDelta, PosVel, PosVelDelta, ellipsoid, rotation, T = _imp()
    drv = ctx.driver
    shape, m, six = c["shape"], len(c["trs"]), c["six"]
    registry_before = dict(ellipsoid._ELLIPSOIDS)
    results = {}
    try:
        for which in c["order"].split(", "):
            name, a, f_inv = c[which]
            # defined (again) at this point of the session: a second definition under a name in use replaces the registered one
            E = ellipsoid.Ellipsoid(name, a=a, f_inv=f_inv, description="defined by the user")
            other = Position(as_shape(c["target_trs"], shape), "trs", ellipsoid=E)
            if six:
                pos = PosVel(as_shape([list(p) + [10.0, -20.0, 30.0] for p in c["trs"]], shape), "trs", ellipsoid=E, other=other)
                delta = PosVelDelta(as_shape([list(d) + [0.0, 0.0, 0.0] for d in c["delta"]], shape), "trs", ref_pos=pos)
            else:
                pos = Position(as_shape(c["trs"], shape), "trs", ellipsoid=E, other=other)
                delta = PositionDelta(as_shape(c["delta"], shape), "trs", ref_pos=pos)
            got = {"t2e": np.asarray(pos.trs2enu, dtype=float).reshape(-1, 3, 3), "e2t": np.asarray(pos.enu2trs, dtype=float).reshape(-1, 3, 3),
                   "llh": rows_of(np.asarray(pos.pos.llh.val, dtype=float)), "enu": rows_of(np.asarray(delta.enu, dtype=float))[:, :3],
                   "az": np.atleast_1d(np.asarray(pos.azimuth, dtype=float)), "el": np.atleast_1d(np.asarray(pos.elevation, dtype=float)),
                   "zd": np.atleast_1d(np.asarray(pos.zenith_distance, dtype=float))}
            results[which] = got
            hasf = "0" if math.isinf(f_inv) else "1"
            ans = drv.ask([f"c06 f frameP {hasf} {fline(a, 0.0 if math.isinf(f_inv) else f_inv)} {fline(*c['trs'][i])}" for i in range(m)])
            for i in range(m):
                ci = {**c, "i": i, "on": which}
                mod = floats(ans[i])
                # ---- correspondence: the model on the parameters of *this* ellipsoid
                if not allclose(got["t2e"][i].ravel(), mod[:9], ulp=4, abs_=1e-15):
                    gdisagree(ctx, "Position.trs2enu on a user-built ellipsoid (trs2llh on its parameters + rotation.trs2enu, Float model)", ci, mod[:9], got["t2e"][i].ravel().tolist())
                if abs(got["llh"][i][0] - mod[9]) > 2e-15 or abs(got["llh"][i][2] - mod[11]) > 1e-8 + 8 * math.ulp(a + abs(mod[11])):
                    gdisagree(ctx, "Position.llh on a user-built ellipsoid (Float model of trs2llh on its parameters)", ci, mod[9:], got["llh"][i].tolist())
                menu = floats(drv.ask1(f"c06 f mulvec {fline(*mod[:9])} {fline(*c['delta'][i])}"))
                nd = float(np.linalg.norm(c["delta"][i]))
                if worst(got["enu"][i], menu) > 8 * 2.3e-16 * nd + 1e-300:
                    gdisagree(ctx, "delta.enu on a user-built ellipsoid (Float model)", ci, menu, got["enu"][i].tolist())
                maz, mel, mzd = floats(drv.ask1(f"c06 f azel {fline(mod[9], mod[10])} {fline(*c['trs'][i])} {fline(*c['target_trs'][i])}"))
                cosel = max(math.cos(mel), 1e-7)
                daz = abs(got["az"][i] - maz)
                if min(daz, abs(daz - 2 * PI)) > 1e-12 / cosel**2 or abs(got["el"][i] - mel) > 1e-12 / cosel**2 or abs(got["zd"][i] - mzd) > 1e-12 / cosel**2:
                    gdisagree(ctx, "azimuth/elevation/zenith_distance on a user-built ellipsoid (Float model)", ci, [maz, mel, mzd], [float(got["az"][i]), float(got["el"][i]), float(got["zd"][i])])
                # ---- oracle: the triad is the geodetic one of these coordinates on the ellipsoid with *these* parameters
                lat, lon, h = own_trs2llh(a, f_inv, *c["trs"][i])
                b = a * (1 - (0.0 if math.isinf(f_inv) else 1.0 / f_inv))
                pos_tol = 1e-6 + 4 * math.ulp(a + abs(h))
                lat_tol = pos_tol / (b + h)
                lon_tol = pos_tol / max((a + h) * abs(math.cos(lat)), 1e-30)
                triad_oracle(ctx, got["e2t"][i], lat, lon, ci, f"Position.enu2trs on {name!r} (a={a!r}, 1/f={f_inv!r}) defined by the user", lat_tol, lon_tol)
                up = np.array([math.cos(lat) * math.cos(lon), math.cos(lat) * math.sin(lon), math.sin(lat)])
                d = np.array(c["delta"][i])
                if abs(got["enu"][i][2] - float(up @ d)) > (REL + 2 * lat_tol) * nd + 1e-300:
                    gviolate(ctx, "user-ellipsoid:up-component", f"up component {got['enu'][i][2]!r} of delta.enu on {name!r} (a={a!r}, 1/f={f_inv!r}) but the projection on that ellipsoid's normal is {float(up @ d)!r}", ci)
                u = np.array(c["target_trs"][i]) - np.array(c["trs"][i])
                want_el = math.asin(max(-1.0, min(1.0, float(up @ u) / float(np.linalg.norm(u)))))
                if abs(got["el"][i] - want_el) > (1e-9 + 2 * lat_tol) / max(math.cos(want_el), 1e-4):
                    gviolate(ctx, "user-ellipsoid:elevation", f"elevation {float(got['el'][i])!r} on {name!r} (a={a!r}, 1/f={f_inv!r}) but the angle above that ellipsoid's tangent plane is {want_el!r}", ci)
    finally:
        # leave the registry as it was (the user names do not stay behind for the other blocks)
        ellipsoid._ELLIPSOIDS.clear()
        ellipsoid._ELLIPSOIDS.update(registry_before)
    # equal parameters give equal frames whatever the names; read again on the first gives what it gave before
    if c["mode"] == "other name, same axes" and {"first", "second"} <= set(results):
        for nme in ("t2e", "llh", "enu", "az", "el"):
            if not np.array_equal(results["first"][nme], results["second"][nme]):
                gviolate(ctx, "user-ellipsoid:equal-parameters-equal-frames", f"{nme} differs between two ellipsoids with equal parameters and different names", c)
                break



# --------------------------------------------------------------------------------------------------
# along / cross / radial


def gen_state(rng):
    """orbit / trajectory states with non-parallel r and v: GNSS-like, LEO, retrograde, nearly parallel, arbitrary"""
    k = rng.random()
    r = [x * rng.uniform(6.6e6, 6e7) for x in unit_dir(rng)]
    if k < 0.6:
        v = [x * rng.uniform(500, 11000) for x in unit_dir(rng)]
    elif k < 0.8:
        # nearly radial velocity (angle 1e-6 .. 1e-2 rad to r)
        rn = np.array(r) / np.linalg.norm(r)
        t = np.cross(rn, unit_dir(rng))
        t /= np.linalg.norm(t)
        ang = 10.0 ** rng.uniform(-6, -2)
        v = (rng.choice([-1, 1]) * math.cos(ang) * rn + math.sin(ang) * t) * rng.uniform(500, 11000)
        v = v.tolist()
    else:
        # perpendicular (circular-like), both senses
        rn = np.array(r) / np.linalg.norm(r)
        t = np.cross(rn, unit_dir(rng))
        t /= np.linalg.norm(t)
        v = (rng.choice([-1, 1]) * t * rng.uniform(500, 11000)).tolist()
    return r, v


def near_states(rng, state0, m):
    """m states of one trajectory: state0 and its two-body motion after i * dt, dt = 0.1 .. 10 ms / m"""
    r0, v0 = np.array(state0[0], dtype=float), np.array(state0[1], dtype=float)
    acc = -3.986004418e14 * r0 / float(np.linalg.norm(r0)) ** 3
    dt = 10.0 ** rng.uniform(-4, -2) / m
    out = [(list(state0[0]), list(state0[1]))]
    for i in range(1, m):
        t = i * dt
        out.append(((r0 + v0 * t + 0.5 * acc * t * t).tolist(), (v0 + acc * t).tolist()))
    return out


def check_acr(ctx: Ctx):
    Position, PositionDelta, PosVel, PosVelDelta, ellipsoid, rotation, T = _imp()
    drv, rng = ctx.driver, ctx.rng
    n = ctx.budget(250, 10000)
    for _ in range(n):
        m = rng.choice([1, 1, 1, 2, 3, 5])
        shape = rng.choice(["1d", "1xk"]) if m == 1 else "nxk"
        states = [gen_state(rng) for _ in range(m)]
        if rng.random() < 0.3:
            # one orbit sampled densely: the states of the rows are 0.1 .. 10 ms of motion apart
            m, shape = max(m, rng.choice([2, 3, 6])), "nxk"
            states = near_states(rng, states[0], m)
            vals = np.array([list(r) + list(v) for r, v in states])
            ctx.count("acr:states 0.1..10 ms apart" + (" (np.allclose to row 0)" if np.allclose(vals, vals[0]) else ""))
        deltas = [gen_vec(rng) + gen_vec(rng, -9, 4) for _ in range(m)]
        case = {"fn": "delta trs<->acr", "shape": shape, "states": states, "delta": deltas}
        ctx.case(case, nontrivial=True)
        ctx.count(f"acr:shape={shape}")
        try:
            one_acr(ctx, case, shape, states, deltas)
        except Exception as e:
            gviolate(ctx, f"raises:acr:{type(e).__name__}", f"along/cross/radial conversion raised {type(e).__name__}: {e}", case)


def one_acr(ctx, case, shape, states, deltas):
    Position, PositionDelta, PosVel, PosVelDelta, *_ = _imp()
    drv = ctx.driver
    m = len(states)
    ref = PosVel(as_shape([list(r) + list(v) for r, v in states], shape), "trs")
    delta = PosVelDelta(as_shape(deltas, shape), "trs", ref_pos=ref)
    t2a = np.asarray(ref.trs2acr, dtype=float)
    a2t = np.asarray(ref.acr2trs, dtype=float)
    want = (3, 3) if shape == "1d" else (m, 3, 3)
    if t2a.shape != want or a2t.shape != want:
        gviolate(ctx, f"shape:trs2acr:{shape}", f"trs2acr has shape {t2a.shape}, expected {want}", case)
        return
    t2a = t2a.reshape(-1, 3, 3)
    a2t = a2t.reshape(-1, 3, 3)
    acr = rows_of(np.asarray(delta.acr, dtype=float))
    back = rows_of(np.asarray(delta.acr.trs, dtype=float))
    raw_shapes = (np.asarray(delta.acr).shape, np.asarray(delta.acr.trs).shape)
    in_shape = np.asarray(as_shape(deltas, shape)).shape
    if acr.shape != (m, 6) or back.shape != (m, 6) or raw_shapes != (in_shape,) * 2:
        gviolate(ctx, f"shape:delta.acr:{shape}", f"delta.acr / delta.acr.trs have shapes {raw_shapes} for input shape {in_shape}", case)
        return
    lines = []
    for i, (r, v) in enumerate(states):
        lines += [f"c06 f trs2acr {fline(*r, *v)}", f"c06 f acr2trs {fline(*r, *v)}",
                  f"c06 f d6trs2acr {fline(*r, *v)} {fline(*deltas[i])}",
                  f"c06 f d6acr2trs {fline(*r, *v)} {fline(*acr[i])}"]
    ans = drv.ask(lines)
    allrows = " ".join(str(i) for i in range(m))
    fwd = floats(drv.ask1(f"c06 f rows trs2acr {m} {allrows} " + " ".join(fline(*r, *v, *deltas[i]) for i, (r, v) in enumerate(states))))
    bwd = floats(drv.ask1(f"c06 f rows acr2trs {m} {allrows} " + " ".join(fline(*r, *v, *acr[i]) for i, (r, v) in enumerate(states))))
    ctx.count("model:rows(trs<->acr)")
    if fwd != [x for i in range(m) for x in floats(ans[4 * i + 2])] or bwd != [x for i in range(m) for x in floats(ans[4 * i + 3])] or len(fwd) != 6 * m:
        gdisagree(ctx, "array-level model rowsTrs2Acr/rowsAcr2Trs vs the one-row model", case, [fwd, bwd], ans)
    for i, (r, v) in enumerate(states):
        r, v = np.array(r), np.array(v)
        sin_rv = float(np.linalg.norm(np.cross(r / np.linalg.norm(r), v / np.linalg.norm(v))))
        # conditioning of the cross-track direction: errors grow like eps / sin(angle(r, v))
        mtol = 8 * 2.3e-16 / max(sin_rv, 1e-12)
        mt, ma = (floats(a) for a in ans[4 * i: 4 * i + 2])
        md, mb = fwd[6 * i: 6 * i + 6], bwd[6 * i: 6 * i + 6]
        if worst(t2a[i].ravel(), mt) > mtol:
            gdisagree(ctx, "PosVelArray.trs2acr (Float model)", {**case, "i": i}, mt, t2a[i].ravel().tolist())
        if worst(a2t[i].ravel(), ma) > mtol:
            gdisagree(ctx, "PosVelArray.acr2trs (Float model)", {**case, "i": i}, ma, a2t[i].ravel().tolist())
        for part in range(2):
            sl = slice(3 * part, 3 * part + 3)
            scale = float(np.linalg.norm(deltas[i][sl]))
            tol = (mtol + 1e-15) * 4 * scale + 1e-300
            if worst(acr[i][sl], md[sl]) > tol:
                gdisagree(ctx, "delta_trs2acr_posvel (Float model)", {**case, "i": i, "part": part}, md[sl], acr[i][sl].tolist())
            if worst(back[i][sl], mb[sl]) > tol:
                gdisagree(ctx, "delta_acr2trs_posvel (Float model)", {**case, "i": i, "part": part}, mb[sl], back[i][sl].tolist())
        # ---- oracle
        why = is_rotation(t2a[i], tol=Fraction(max(1e-13, 4e-15 / max(sin_rv, 1e-12))))
        if why:
            gviolate(ctx, "proper-rotation:trs2acr", f"trs2acr is not a proper rotation: {why}", {**case, "i": i})
        if not np.array_equal(a2t[i], t2a[i].T):
            gviolate(ctx, "acr2trs=trs2acr^T", "acr2trs != trs2acr^T", {**case, "i": i})
        rhat = r / np.linalg.norm(r)
        chat = np.cross(r, v)
        chat = chat / np.linalg.norm(chat)
        ahat = np.cross(chat, rhat)
        ttol = 1e-13 / max(sin_rv, 1e-12) + 1e-13
        for name, row, want_v in (("along", 0, ahat), ("cross", 1, chat), ("radial", 2, rhat)):
            if float(np.max(np.abs(t2a[i][row] - want_v))) > ttol:
                gviolate(ctx, f"acr-triad:{name}", f"row {row} of trs2acr {t2a[i][row].tolist()} is not the {name} unit vector {want_v.tolist()}", {**case, "i": i})
        for part in range(2):
            sl = slice(3 * part, 3 * part + 3)
            d = np.array(deltas[i][sl])
            nd = float(np.linalg.norm(d))
            if abs(float(np.linalg.norm(acr[i][sl])) - nd) > REL * nd:
                gviolate(ctx, "norm-preserved:trs->acr", f"|acr| = {float(np.linalg.norm(acr[i][sl]))!r} but |trs| = {nd!r}", {**case, "i": i, "part": part})
            if float(np.max(np.abs(back[i][sl] - d))) > REL * nd:
                gviolate(ctx, "roundtrip:trs->acr->trs", f"trs -> acr -> trs is off by {float(np.max(np.abs(back[i][sl] - d))):.3e}", {**case, "i": i, "part": part})
            proj = np.array([np.dot(d, ahat), np.dot(d, chat), np.dot(d, rhat)])
            if float(np.max(np.abs(proj - acr[i][sl]))) > (REL + ttol) * nd + 1e-300:
                gviolate(ctx, "acr=projections-on-triad", f"acr components {acr[i][sl].tolist()} are not the projections {proj.tolist()} on along/cross/radial", {**case, "i": i, "part": part})
            comb = acr[i][sl][0] * ahat + acr[i][sl][1] * chat + acr[i][sl][2] * rhat
            if float(np.max(np.abs(comb - back[i][sl]))) > (REL + ttol) * nd + 1e-300:
                gviolate(ctx, "trs=combination-of-acr-triad", f"acr -> trs gives {back[i][sl].tolist()} but a*along + c*cross + r*radial of the row's state is {comb.tolist()}", {**case, "i": i, "part": part})
    # the result does not depend on the system the vector is handed over in: the ENU components of the same vectors give the
    # same along/cross/radial components, and the ACR components the same ENU components (whatever path the conversion takes)
    enu = rows_of(np.asarray(delta.enu, dtype=float))
    acr_of_enu = rows_of(np.asarray(PosVelDelta(as_shape(enu.tolist(), shape), "enu", ref_pos=ref).acr, dtype=float))
    enu_of_acr = rows_of(np.asarray(PosVelDelta(as_shape(acr.tolist(), shape), "acr", ref_pos=ref).enu, dtype=float))
    for i, (r, v) in enumerate(states):
        sin_i = max(float(np.linalg.norm(np.cross(np.array(r) / np.linalg.norm(r), np.array(v) / np.linalg.norm(v)))), 1e-12)
        for q in (0, 3):
            nd = float(np.linalg.norm(deltas[i][q:q + 3]))
            ptol = (REL + 64 * 2.3e-16 / sin_i) * nd + 1e-300
            if acr_of_enu.shape != acr.shape or float(np.max(np.abs(acr_of_enu[i][q:q + 3] - acr[i][q:q + 3]))) > ptol:
                gviolate(ctx, "path-independence:enu->acr", f"the ENU components of a vector give along/cross/radial {acr_of_enu[i][q:q + 3].tolist() if acr_of_enu.shape == acr.shape else acr_of_enu.shape}, its TRS components {acr[i][q:q + 3].tolist()}", {**case, "i": i, "part": q // 3})
            if enu_of_acr.shape != enu.shape or float(np.max(np.abs(enu_of_acr[i][q:q + 3] - enu[i][q:q + 3]))) > ptol:
                gviolate(ctx, "path-independence:acr->enu", f"the along/cross/radial components of a vector give ENU {enu_of_acr[i][q:q + 3].tolist() if enu_of_acr.shape == enu.shape else enu_of_acr.shape}, its TRS components {enu[i][q:q + 3].tolist()}", {**case, "i": i, "part": q // 3})
    # rows are independent: one state as (6,) and (1,6) on its own gives the numbers of its row of the array (first and last row)
    for j in sorted({0, m - 1}):
        r0, v0 = np.array(states[j][0]), np.array(states[j][1])
        sin0 = float(np.linalg.norm(np.cross(r0 / np.linalg.norm(r0), v0 / np.linalg.norm(v0))))
        stol = 16 * 2.3e-16 / max(sin0, 1e-12)
        for sh in ("1d", "1xk"):
            ref1 = PosVel(as_shape([list(states[j][0]) + list(states[j][1])], sh), "trs")
            d1 = PosVelDelta(as_shape([deltas[j]], sh), "trs", ref_pos=ref1)
            got = np.asarray(d1.acr, dtype=float).ravel()
            if got.shape != acr[j].shape or any(float(np.max(np.abs(got[q:q + 3] - acr[j][q:q + 3]))) > (stol + 1e-15) * 4 * float(np.linalg.norm(deltas[j][q:q + 3])) for q in (0, 3)):
                gviolate(ctx, f"shape-consistency:delta.acr:{sh}", f"delta.acr of state {j} given on its own as {sh} is {got.tolist()} but {acr[j].tolist()} as row of an array", {**case, "as": sh, "i": j})
            back1 = np.asarray(PosVelDelta(as_shape([acr[j].tolist()], sh), "acr", ref_pos=ref1).trs, dtype=float).ravel()
            if back1.shape != (6,) or any(float(np.max(np.abs(back1[q:q + 3] - np.array(deltas[j][q:q + 3])))) > (REL + 4 * stol) * float(np.linalg.norm(deltas[j][q:q + 3])) for q in (0, 3)):
                gviolate(ctx, f"shape-consistency:acr-delta.trs:{sh}", f"the along/cross/radial components of row {j} converted to TRS on their own ({sh}) give {back1.tolist()}, the vector was {list(deltas[j])}", {**case, "as": sh, "i": j})
            m1 = np.asarray(ref1.trs2acr, dtype=float).reshape(3, 3)
            if float(np.max(np.abs(m1 - t2a[j]))) > stol:
                gviolate(ctx, f"shape-consistency:trs2acr:{sh}", f"trs2acr of state {j} given on its own as {sh} is {m1.tolist()} but {t2a[j].tolist()} as row of an array", {**case, "as": sh, "i": j})


# --------------------------------------------------------------------------------------------------
# azimuth / elevation / zenith distance


def check_azel(ctx: Ctx):
    Position, PositionDelta, PosVel, PosVelDelta, ellipsoid, rotation, T = _imp()
    drv, rng = ctx.driver, ctx.rng
    names = list(ellipsoid._ELLIPSOIDS)
    n = ctx.budget(250, 12000)
    for _ in range(n):
        ell = rng.choice(names)
        E = ellipsoid.get(ell)
        m = rng.choice([1, 1, 2, 3])
        shape = rng.choice(["1d", "1xk"]) if m == 1 else "nxk"
        llh_rows = [gen_ref_llh(rng) for _ in range(m)]
        trs_rows = [np.asarray(T.llh2trs(np.array(r), E), dtype=float).reshape(-1, 3)[0].tolist() for r in llh_rows]
        targets = []
        for p in trs_rows:
            k = rng.random()
            if k < 0.6:
                d = [x * rng.uniform(1e3, 3e7) for x in unit_dir(rng)]
            else:
                d = gen_vec(rng, 0, 8)
                if not any(d):
                    d = [1.0, 2.0, 3.0]
            targets.append([a + b for a, b in zip(p, d)])
        # observer and target are handed over in any registered system (trs / llh); the angles must not depend on it
        obs_sys = rng.choice(["trs", "llh"])
        tgt_sys = rng.choice(["trs", "llh"])
        if tgt_sys == "llh":
            tgt_llh = [np.asarray(T.trs2llh(np.array(t), E), dtype=float).reshape(-1, 3)[0].tolist() for t in targets]
            # ground truth of the target: the Cartesian point of exactly these geodetic coordinates
            targets = [np.asarray(T.llh2trs(np.array(g), E), dtype=float).reshape(-1, 3)[0].tolist() for g in tgt_llh]
        case = {"fn": "azimuth/elevation/zenith_distance", "ellipsoid": ell, "shape": shape, "observer_system": obs_sys,
                "target_system": tgt_sys, "ref_llh": llh_rows, "ref_trs": trs_rows, "target_trs": targets,
                "target_llh": tgt_llh if tgt_sys == "llh" else None}
        ctx.case(case, nontrivial=True)
        ctx.count(f"azel:shape={shape}")
        ctx.count(f"azel:observer={obs_sys},target={tgt_sys}")
        try:
            other = Position(as_shape(tgt_llh if tgt_sys == "llh" else targets, shape), tgt_sys, ellipsoid=E)
            ref = Position(as_shape(llh_rows if obs_sys == "llh" else trs_rows, shape), obs_sys, ellipsoid=E, other=other)
            az = np.atleast_1d(np.asarray(ref.azimuth, dtype=float))
            el = np.atleast_1d(np.asarray(ref.elevation, dtype=float))
            zd = np.atleast_1d(np.asarray(ref.zenith_distance, dtype=float))
            e2t = np.asarray(ref.enu2trs, dtype=float).reshape(-1, 3, 3)
            llh = np.asarray(ref.llh.val, dtype=float).reshape(-1, 3)
            # the *_to() methods on a second, uncached observer object give the cached properties' values
            ref2 = Position(as_shape(llh_rows if obs_sys == "llh" else trs_rows, shape), obs_sys, ellipsoid=E)
            az2 = np.atleast_1d(np.asarray(ref2.azimuth_to(other), dtype=float))
            el2 = np.atleast_1d(np.asarray(ref2.elevation_to(other), dtype=float))
            zd2 = np.atleast_1d(np.asarray(ref2.zenith_distance_to(other), dtype=float))
        except Exception as e:
            gviolate(ctx, f"raises:azel:{type(e).__name__}", f"azimuth/elevation raised {type(e).__name__}: {e}", case)
            continue
        if az2.shape != az.shape or not (np.allclose(az2, az, rtol=0, atol=1e-12) and np.allclose(el2, el, rtol=0, atol=1e-12) and np.allclose(zd2, zd, rtol=0, atol=1e-12)):
            gviolate(ctx, "azel:property-vs-method", f"azimuth/elevation/zenith_distance properties {az.tolist(), el.tolist(), zd.tolist()} differ from azimuth_to/elevation_to/zenith_distance_to {az2.tolist(), el2.tolist(), zd2.tolist()}", case)
        raw = tuple(np.shape(getattr(ref, nme)) for nme in ("azimuth", "elevation", "zenith_distance")) + tuple(np.shape(x) for x in (ref2.azimuth_to(other), ref2.elevation_to(other), ref2.zenith_distance_to(other)))
        want_raw = () if shape == "1d" else (m,)
        if az.shape != (m,) or el.shape != (m,) or zd.shape != (m,) or any(r != want_raw for r in raw):
            gviolate(ctx, f"shape:azel:{shape}", f"azimuth / elevation / zenith_distance (properties, *_to methods) have shapes {raw} for positions of shape {np.shape(ref)}: one angle per row expected", case)
            continue
        ans = drv.ask([f"c06 f azel {fline(llh[i][0], llh[i][1])} {fline(*trs_rows[i])} {fline(*targets[i])}" for i in range(m)])
        arr = floats(drv.ask1("c06 f rowsazel " + " ".join(f"{fline(llh[i][0], llh[i][1])} {fline(*trs_rows[i])} {fline(*targets[i])}" for i in range(m))))
        ctx.count("model:rowsAzElZd")
        if arr != [x for i in range(m) for x in floats(ans[i])] or len(arr) != 3 * m:
            gdisagree(ctx, "array-level model rowsAzElZd vs the one-row model", case, arr, ans)
            continue
        for i in range(m):
            maz, mel, mzd = arr[3 * i: 3 * i + 3]
            d = np.array(targets[i]) - np.array(trs_rows[i])
            nd = float(np.linalg.norm(d))
            # cancellation in target - reference limits the direction to ~ ulp(|p|)/|d|
            dirtol = 4 * 2.3e-16 * (float(np.linalg.norm(trs_rows[i])) + nd) / nd + 1e-15
            horiz = math.cos(el[i]) if abs(el[i]) < PI / 2 else 0.0
            aztol = dirtol / max(horiz, 1e-9)
            u_ = d / nd
            horiz_true = math.hypot(float(np.dot(u_, e2t[i][:, 0])), float(np.dot(u_, e2t[i][:, 1])))
            if horiz_true <= 8 * dirtol:
                aztol = math.inf  # target at the zenith / nadir within rounding: the azimuth is not defined
            eltol = dirtol / max(horiz, math.sqrt(dirtol))  # asin is ill-conditioned at +-1
            daz = abs((az[i] - maz + PI) % (2 * PI) - PI)
            if daz > aztol or abs(el[i] - mel) > eltol or abs(zd[i] - mzd) > eltol:
                gdisagree(ctx, "azimuth/elevation/zenith_distance (Float model)", {**case, "i": i}, [maz, mel, mzd], [float(az[i]), float(el[i]), float(zd[i])])
            # oracle: the angles of the target vector expressed in the East/North/Up triad
            u = d / nd
            e_c, n_c, u_c = (float(np.dot(u, e2t[i][:, j])) for j in range(3))
            want_az = math.atan2(e_c, n_c)
            want_el = math.asin(max(-1.0, min(1.0, u_c)))
            if abs((az[i] - want_az + PI) % (2 * PI) - PI) > aztol + 1e-12:
                gviolate(ctx, "azimuth=atan2(east,north)", f"azimuth {float(az[i])!r} but the target has East/North components ({e_c!r}, {n_c!r}) -> {want_az!r}", {**case, "i": i})
            if abs(el[i] - want_el) > eltol + 1e-12:
                gviolate(ctx, "elevation=asin(up)", f"elevation {float(el[i])!r} but the Up component is {u_c!r} -> {want_el!r}", {**case, "i": i})
            if abs(zd[i] - (PI / 2 - el[i])) > 1e-15:
                gviolate(ctx, "zenith=pi/2-elevation", f"zenith distance {float(zd[i])!r} != pi/2 - elevation {float(el[i])!r}", {**case, "i": i})
            if not (-PI <= az[i] <= PI and -PI / 2 <= el[i] <= PI / 2 and 0 <= zd[i] <= PI):
                gviolate(ctx, "azel-ranges", f"angles out of range: az={float(az[i])!r} el={float(el[i])!r} zd={float(zd[i])!r}", {**case, "i": i})
            rec = np.array([math.cos(el[i]) * math.sin(az[i]), math.cos(el[i]) * math.cos(az[i]), math.sin(el[i])])
            # cos(el) loses everything below sqrt(eps) next to the zenith/nadir (asin is ill-conditioned at +-1)
            if float(np.max(np.abs(rec - np.array([e_c, n_c, u_c])))) > 10 * dirtol + 1e-12 + 4.5e-16 / max(horiz, 1.5e-8):
                gviolate(ctx, "azel-reconstruct-direction", f"(cos el sin az, cos el cos az, sin el) = {rec.tolist()} is not the target direction {[e_c, n_c, u_c]} in ENU", {**case, "i": i})


def replay(payload):
    """re-run the oracle on a stored case against $MIDGARD_REPO; exit code 1 when the violation reproduces"""
    import json

    c = payload.get("replay", payload)
    print(json.dumps(c, indent=1, default=str)[:2500])
    print("key:", payload.get("key"), "| what:", payload.get("what"))
    ctx = Ctx("C06", "quick", int(payload.get("seed", 0) or 0))
    *_, ellipsoid, rotation, T = _imp()
    fn = c.get("fn")
    try:
        if fn == "delta trs<->acr":
            one_acr(ctx, c, c["shape"], [tuple(x) for x in c["states"]], c["delta"])
        elif fn == "delta trs<->enu" and c.get("ellipsoid") in ellipsoid._ELLIPSOIDS:
            six = c.get("dvel") is not None
            one_frame(ctx, c, c["ellipsoid"], ellipsoid.get(c["ellipsoid"]), c["shape"], c["ref_sys"], c["ref_llh"], c["ref_trs"],
                      c["delta"], c.get("dvel") or [[0.0, 0.0, 0.0]] * len(c["delta"]), six)
        elif fn == "history: read, replace, read":
            one_history(ctx, c)
        elif fn == "rows of an array":
            one_indexed(ctx, c)
        elif fn == "user ellipsoids":
            one_user_ellipsoids(ctx, c)
        elif fn == "corpus":
            corpus_case(ctx, c)
        else:
            print("no dedicated replay for this kind of case: re-run `VERIF_SEED=%s ./check C06 --tier %s`" % (payload.get("seed", 0), payload.get("tier", "quick")))
            return 0
    except Exception as e:
        print("raised", type(e).__name__, e)
        return 1
    for v in ctx.violations:
        print("VIOLATION " + v.key + ": " + v.what)
    for d in ctx.corr_broken[:5]:
        print("model/code disagreement:", d["correspondence"])
    print("verdict:", "violation reproduced" if ctx.violations else "no violation on this tree")
    if ctx._driver:
        ctx._driver.close()
    return 1 if ctx.violations else 0
